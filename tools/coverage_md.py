#!/usr/bin/env python3
"""Render llvm-cov's JSON export as /verif/COVERAGE.md: which functions of the crate (outside its #[cfg(test)]
modules, which are not compiled into the harness anyway) were executed by the monitors, and which were not."""
import json
import re
import subprocess
import sys


def demangle(names):
    try:
        p = subprocess.run(["rustfilt"], input="\n".join(names), stdout=subprocess.PIPE, text=True)
        if p.returncode == 0:
            return p.stdout.split("\n")
    except FileNotFoundError:
        pass
    return names


def short(name):
    # _RNv...: keep it readable without rustfilt: pull identifiers out of the v0 mangling
    ids = re.findall(r"(?<![0-9])(\d+)([A-Za-z_][A-Za-z0-9_]*)", name)
    out = []
    for n, s in ids:
        n = int(n)
        if 0 < n <= len(s):
            out.append(s[:n])
    return "::".join(out) if out else name


_SRC = {}


def source_line(rel, line):
    if rel not in _SRC:
        try:
            _SRC[rel] = open("/repo/" + rel, encoding="utf-8", errors="replace").read().splitlines()
        except OSError:
            _SRC[rel] = []
    ls = _SRC[rel]
    return ls[line - 1].strip() if 0 < line <= len(ls) else "?"


def main():
    exp = json.load(open(sys.argv[1]))
    report = open(sys.argv[2]).read()
    tier = sys.argv[3]
    data = exp["data"][0]
    funcs = {}
    for f in data["functions"]:
        files = [x for x in f["filenames"] if "/repo/src/" in x]
        if not files:
            continue
        # first region: line_start, col_start, line_end, col_end, count, ...
        r0 = f["regions"][0]
        key = (files[0].split("/repo/")[1], r0[0])
        rec = funcs.setdefault(key, {"count": 0, "names": set(), "regions": 0, "hit": 0})
        rec["count"] = max(rec["count"], f["count"])
        rec["names"].add(source_line(key[0], key[1]))
        regs = [r for r in f["regions"] if r[7] == 0]  # code regions
        hit = sum(1 for r in regs if r[4] > 0)
        if len(regs) >= rec["regions"]:
            rec["regions"] = len(regs)
        rec["hit"] = max(rec["hit"], hit)
    print("# What the monitors executed inside the crate\n")
    print("Produced by `tools/coverage.sh` (harness and crate rebuilt from /repo's working tree with")
    print("`-Cinstrument-coverage`, `%s` tier of all twenty monitors, fast leg, counters merged). A measurement of" % tier)
    print("reach, not a verdict: a function that never ran cannot have been observed violating anything.\n")
    print("## Per file (llvm-cov report; generic functions are counted once per instantiation)\n")
    print("```")
    for line in report.splitlines():
        if "/.rustup/" in line:
            continue
        line = re.sub(r"^repo/src/", "", line)
        line = re.sub(r" {40,}", "    ", line, count=1)
        print(re.sub(r"\s+$", "", line))
    print("```\n")
    never = sorted(k for k, v in funcs.items() if v["count"] == 0)
    partial = sorted((k, v) for k, v in funcs.items() if v["count"] > 0 and v["hit"] < v["regions"])
    print("## Functions of the crate compiled into the harness: %d, executed: %d\n" % (len(funcs), len(funcs) - len(never)))
    print("### Never executed by any monitor\n")
    if not never:
        print("(none)\n")
    for k in never:
        print("* `%s:%d` %s" % (k[0], k[1], ", ".join(sorted(funcs[k]["names"]))[:160]))
    print("\n### Executed, but with code regions (branches / arms) that never ran\n")
    for k, v in partial:
        print("* `%s:%d` %s — %d of %d regions" % (k[0], k[1], ", ".join(sorted(v["names"]))[:120], v["hit"], v["regions"]))


if __name__ == "__main__":
    main()
