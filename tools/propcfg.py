"""Per-property configuration shared by ./check and tools/gen_manifest.py.

legs: which builds of the harness run in each tier.
  fast    = release, overflow-checks off, debug-assertions off
  checked = same optimisation, overflow-checks on, debug-assertions on
  miri    = the same monitor on a smoke-sized workload under `cargo +nightly miri run`
"""

BOTH = ["fast", "checked"]
COMMON_ASSUMPTIONS = [
    "the oracle (monitor/src/model.rs: documented bit layout, rules of poker, Chen formula, symbol sets) is right; "
    "it is self-checked against the known combinatorics of poker (7462 classes, category populations) at the start of every leg",
    "results hold for the two build profiles exercised (release with and without overflow checks / debug assertions) on this toolchain and target",
]

PROPS = {}


def prop(pid, built, legs_quick, legs_thorough, technique, level_text, level_note, design_ref, extra_assumptions=()):
    PROPS[pid] = {
        "built": built,
        "legs": {"quick": legs_quick, "thorough": legs_thorough},
        "technique": technique,
        "level_text": level_text,
        "level_note": level_note,
        "design_ref": design_ref,
        "assumptions": list(COMMON_ASSUMPTIONS) + list(extra_assumptions),
    }


prop("C01", True, BOTH, BOTH,
     "runtime reference-model monitor over the exhaustive input space (all 2,598,960 hands x slot orders x 6 entry points), two build profiles",
     "Every five-card subset of the deck is driven through all six five-card entry points of the compiled crate and each result is compared "
     "with an independent rules-of-poker ordinal; quick uses 6 slot orders per hand, thorough all 120, so thorough closes the stated quantifier. "
     "The monitor also observes that all 7462 values are produced and how many cells of each lookup table were exercised.",
     "Trusts the oracle in monitor/src/model.rs (self-checked: 7462 classes, category populations, endpoints) and rustc/this target; "
     "says nothing about other targets or compilers.",
     "DESIGN.md section 5, C01")
