"""Per-property configuration shared by ./check and tools/gen_manifest.py.

legs: which builds of the harness run in each tier.
  fast    = release, overflow-checks off, debug-assertions off
  checked = same optimisation, overflow-checks on, debug-assertions on
  miri    = the same monitor on a smoke-sized workload under `cargo +nightly miri run`
"""

BOTH = ["fast", "checked"]
COMMON_ASSUMPTIONS = [
    "the oracle (monitor/src/model.rs: documented bit layout, rules of poker, Chen formula, symbol sets) is right; "
    "it is self-checked against the known combinatorics of poker (7462 classes, category populations) at the start of every leg",
    "results hold for the two build profiles exercised (release with and without overflow checks / debug assertions) on this toolchain and target",
]

PROPS = {}


def prop(pid, built, legs_quick, legs_thorough, technique, level_text, level_note, design_ref, extra_assumptions=()):
    PROPS[pid] = {
        "built": built,
        "legs": {"quick": legs_quick, "thorough": legs_thorough},
        "technique": technique,
        "level_text": level_text,
        "level_note": level_note,
        "design_ref": design_ref,
        "assumptions": list(COMMON_ASSUMPTIONS) + list(extra_assumptions),
    }


F = ["fast"]
MIRI = ["fast", "checked", "miri"]

NOTE_ORACLE = ("Trusts the rules-of-poker oracle in monitor/src/model.rs (self-checked at the start of every leg: 7462 classes, category populations, endpoints; "
               "direct 6/7-card evaluation cross-checked against min over 5-subsets) and rustc on this target; says nothing about other targets or compilers.")
NOTE_LAYOUT = ("Trusts the documented bit layout as transcribed in monitor/src/model.rs (52 words, O(1) decode-and-rebuild membership test self-checked against the 52-word list) "
               "and rustc on this target.")
NOTE_MODEL = "Trusts the small executable model written from the property statement (monitor/src/model.rs and the monitor itself) and rustc on this target."

prop("C01", True, BOTH, BOTH,
     "runtime reference-model monitor over the exhaustive input space (all 2,598,960 hands x slot orders x 6 entry points), two build profiles",
     "Every five-card subset of the deck is driven through all six five-card entry points of the compiled crate and each result is compared "
     "with an independent rules-of-poker ordinal; quick uses 6 slot orders per hand, thorough all 120, so thorough closes the stated quantifier. "
     "The monitor also observes that all 7462 values are produced and how many cells of each lookup table were exercised (1287/1287/4888).",
     NOTE_ORACLE, "DESIGN.md section 5, C01")
prop("C02", True, BOTH, BOTH,
     "runtime reference-model monitor over all 20,358,520 six-card and all 133,784,560 seven-card subsets, plus a row-targeting workload for the slot tables",
     "Every 6- and 7-subset of the deck (canonical slot order) is ranked by the compiled crate and compared with a direct rule-based evaluation of the best hand; "
     "seeded slot orders, all four entry points on a seeded share, and for every class x every five-slot row a hand whose uniquely best sub-hand sits exactly in that row. "
     "Exhaustive in the subset dimension; other slot orders are sampled (stated limit).",
     NOTE_ORACLE, "DESIGN.md section 5, C02")
prop("C03", True, BOTH, BOTH,
     "runtime invariant monitor on the reported witness hand over all 5/6/7-card subsets (membership, distinctness, descending order, re-ranking)",
     "For every 6- and 7-subset the (value, hand) pair returned by the crate is checked: five distinct input cards, strictly descending words, re-ranking through the crate and "
     "through the rules oracle gives the reported value; for every five-card hand the reported hand is the input unchanged. Exhaustive over subsets; extra slot orders seeded.",
     NOTE_ORACLE, "DESIGN.md section 5, C03")
prop("C04", True, BOTH, BOTH,
     "runtime oracle monitor: all 2^32 words through one slot, every slot-equality pattern x word-class mix for sizes 2..7, all card-or-blank arrays of sizes 2..4(5), two build profiles",
     "is_valid and the validated ranking entry points are compared with 'every word is one of the 52 and all slots differ' on: every 32-bit word in a slot, every word within Hamming "
     "distance 2 of a card in every slot of every size, every set partition of the slots with every mix of card/blank/near-miss/arbitrary words, all ordered card-or-blank arrays of "
     "sizes 2..4 (5 in thorough), every valid five-card hand and seeded hands. Whole hands over arbitrary words are an infinite-like space: reached structurally, not exhaustively.",
     NOTE_LAYOUT, "DESIGN.md section 5, C04")
prop("C05", True, BOTH, MIRI,
     "runtime panic/hang monitor (catch_unwind + watchdog) over all card-or-blank multisets of sizes 5..7 and every product-search key, in both build profiles; Miri smoke leg",
     "Every five- and six-slot multiset over {52 cards, blank} and a seeded share (thorough: all) of the seven-slot ones go through five ranking entry points under catch_unwind "
     "with a per-call hang watchdog, in the release and the overflow-checked build; Five::find_in_products is called on every key 0..=104,618,693 and on boundary/seeded keys up to usize::MAX; "
     "blank fives must rank 0/Invalid. This is the check that found defect D1.",
     "Trusts catch_unwind/the watchdog to observe abnormal termination, and rustc on this target; the two profiles are the 'configurations' of the property.",
     "DESIGN.md section 5, C05")
prop("C06", True, BOTH, BOTH,
     "runtime reference-model monitor: all 65,536 values and all 2,598,960 hands, names derived from the rules key by the variant-name grammar",
     "HandRank::from is checked on every 16-bit value (value, category, class, Invalid exactly outside 1..=7462, self-consistency, helpers, default) against class names derived "
     "from the rules; the 309 classes must each cover one contiguous non-empty range; hand_rank()/hand_rank_validated() of every five-card hand and of seeded six/seven-card hands "
     "must name the category and class of the actual cards.",
     NOTE_ORACLE, "DESIGN.md section 5, C06")
prop("C07", True, BOTH, BOTH,
     "runtime order-law monitor over all 2^32 ordered pairs with an integer-key embedding that settles transitivity on all triples",
     "All 65,536 x 65,536 ordered pairs of converted ranks are compared: antisymmetry, Equal iff ==, stronger-is-greater, invalid-below-valid, partial_cmp and the four operators, "
     "and agreement with an integer key computed from the crate's own cmp (so the order is transitive on all 2^48 triples). The two enumerations are checked on all value pairs. "
     "Exhaustive. This is the check that found defect D2.",
     "Trusts only integer comparison and rustc on this target.", "DESIGN.md section 5, C07")
prop("C08", True, BOTH, BOTH,
     "runtime metamorphic monitor: model shift per slot, all 24 suit relabellings of every five-card hand, three shifts of every six-card and (thorough: every) seven-card hand",
     "shift_suit is compared slot-wise with the model shift on cards, blank and containers of every size; the value of every five-card hand must be unchanged under all 24 suit "
     "relabellings, and of every six-card hand and a seeded quarter (thorough: all) of the seven-card hands under the crate's three non-trivial shifts.",
     NOTE_LAYOUT, "DESIGN.md section 5, C08")
prop("C09", True, BOTH, BOTH,
     "runtime metamorphic monitor (no oracle): v7 vs its seven v6, v6 vs its six v5, sub-hands made by slot deletion",
     "For every six-card subset and a seeded quarter (thorough: all 133,784,560) of the seven-card subsets the larger hand's value must be <= every sub-hand's and equal to the minimum; "
     "half of the hands are presented in a seeded slot order. Independent of the oracle used by C01/C02, so it also guards against a shared blind spot.",
     "Trusts nothing but the crate's own values and integer comparison.", "DESIGN.md section 5, C09")
prop("C10", True, BOTH, BOTH,
     "runtime reference-model monitor: all 2^32 words through the card filter, 52 constants, 70 constructor pairs, all accessors, two build profiles",
     "Every 32-bit word goes through both filter entry points against a decode-and-rebuild membership test (exactly 52 must pass); the 52 named constants, the deck and create(rank, suit) "
     "for all 14 x 5 member pairs must equal the documented layout word; every accessor is read back on every card (characters checked semantically). Exhaustive.",
     NOTE_LAYOUT, "DESIGN.md section 5, C10")
prop("C11", True, BOTH, MIRI,
     "runtime reference-model monitor: 52x52 card order, sorting vs an independent insertion sort on all arrangements of a hostile 8-word alphabet plus seeded hands; Miri smoke leg",
     "Integer order of the crate's card words is compared with rank-then-suit on all pairs; sort()/sort_in_place() of every size are compared with the harness's own descending insertion "
     "sort (same multiset, non-increasing, idempotent, receiver untouched, both forms agree) on every arrangement over {0, 1, two jacks, flagged card, 0x7FFFFFFF, 0x80000000, 0xFFFFFFFF} "
     "and on seeded arbitrary-word and card-or-blank hands.",
     NOTE_MODEL, "DESIGN.md section 5, C11")
prop("C12", True, BOTH, MIRI,
     "runtime reference-model monitor: all 1,112,064 Unicode scalars through the symbol tables, structured and seeded texts through every parser under catch_unwind; Miri smoke leg",
     "Every scalar value goes through both symbol tables and sits as first/second character of a token; all pairs over an alphabet of symbols, separators and multi-byte/combining "
     "characters with six tails, hand texts with 0..9 tokens for each Unicode white-space separator, and seeded texts go through from_index, get_rank_and_suit, five_from_index, the six "
     "TryFrom<&str> parsers and BinaryCard::from_index against two explicit symbol sets and the harness's own tokenizer. All strings is an infinite space: tails are sampled.",
     NOTE_MODEL, "DESIGN.md section 5, C12")
prop("C13", True, BOTH, BOTH,
     "runtime reference-model monitor: four predicates on all 2,598,960 hands vs suits/ranks by the rules and vs the ranked category",
     "is_flush / is_straight / is_straight_flush / is_wheel of every five-card hand (quick: two slot orders, thorough: all 120) are compared with the rules-based category and with "
     "hand_rank().name, and the deprecated free functions with the methods. Exhaustive. This is the check that found defect D3 (58,824 paired hands with a rank span of five).",
     NOTE_ORACLE, "DESIGN.md section 5, C13")
prop("C14", True, BOTH, BOTH,
     "runtime reference-model monitor: all 2^32 words word->bit, all 1/2(/3)-bit and seeded 64-bit values bit->word, 104 constants",
     "from_ckc is compared with 1<<(51-i) for card i / 0 otherwise on every 32-bit word; from_binary_card on every one- and two-bit value (three-bit in thorough), structured sets and "
     "seeded values of every population count; DECK and the 52 named bit constants against the deck order; round trips through the crate.",
     NOTE_LAYOUT, "DESIGN.md section 5, C14")
prop("C15", True, BOTH, BOTH,
     "runtime model-based history monitor: peel sequences to exhaustion vs bit arithmetic; set algebra on structured and seeded sets; hands and texts to sets",
     "Sets built from hands (all ordered hands of sizes 2-3, seeded hands with blanks, duplicates and near-miss words for 4-7) and from texts are compared with the OR of model bits; "
     "fold_in/has/count/single/valid with plain u64 arithmetic on a structured family pairwise and on seeded sets of every population count; every set is peeled to exhaustion plus "
     "three calls and each event compared with 'highest remaining card bit, only that bit cleared, overflow bits untouched'. 2^64 sets are sampled, not enumerated.",
     NOTE_MODEL, "DESIGN.md section 5, C15")
prop("C16", True, BOTH, BOTH,
     "runtime reference-model monitor over all one-/two-(three-)bit sets and seeded sets of every population count, under catch_unwind, two build profiles",
     "Two::try_from(BinaryCard) is compared with a descending-bit-scan model (Ok with the two cards in deck order and round trip, NotEnoughCards, TooManyCards, InvalidBinaryFormat) on "
     "0, all 64 one-bit and 2,016 two-bit values (41,664 three-bit in thorough), boundary sets and seeded sets of every population count.",
     NOTE_MODEL, "DESIGN.md section 5, C16")
prop("C17", True, BOTH, BOTH,
     "runtime reference-model monitor over all 2,652 ordered pairs, oracle in integer half-points, two build profiles",
     "chen_formula and the six helpers are compared with an integer (half-point) implementation of Bill Chen's formula on every ordered pair of distinct cards, plus invariance under "
     "slot swap and suit shift and the per-card points of all 52 cards; the evidence lists how many pairs hit each arm (gap class x suited x below-queen). Exhaustive.",
     "Trusts the half-point oracle (self-checked on the published examples AA, AKs, AKo, TT, 7-5s, 22, 72o) and rustc on this target.", "DESIGN.md section 5, C17")
prop("C18", True, BOTH, BOTH,
     "runtime invariant check at a quiescent point on constant data: every table entry vs the set of combinations it should enumerate",
     "The deck (order, completeness, Deck::get in range and on every index class past the end), the six preset starting-hand tables (exact combination sets, no duplicates, higher rank "
     "first, AKs u AKo = AK) and the three slot-index tables (exactly C(4,2), C(6,5), C(7,5), rows increasing, no repeats) are checked entry by entry. Exhaustive for the tables.",
     NOTE_LAYOUT, "DESIGN.md section 5, C18")
prop("C19", True, BOTH, MIRI,
     "runtime history monitor against an array model, compared after every operation, unique words per history; all 6^5 and 7^5 selection tuples; Miri smoke leg",
     "Directed histories per size and constructor form and seeded 40-operation histories (set, rebuild through any constructor, copy-and-scribble, reconstruct) over Two..Seven are "
     "compared with a plain array after every step through all accessors, to_arr and iter; every one of the 27 setters, 27 accessors and 18 constructor forms must be observed; "
     "five_from_permutation is checked on every in-range index tuple. Histories are sampled, not enumerated.",
     NOTE_MODEL, "DESIGN.md section 5, C19")
prop("C20", True, BOTH, BOTH,
     "runtime reference-model monitor: 52 cards x all 121 mark sequences, accessors, strip, order vs all unmarked and marked words",
     "Every card under every sequence of up to four marks (every subset in every order, with repeats) must equal card | marks<<29, read back the same fields and characters, strip to "
     "the original and sort above every unmarked card with quads > trips > pair against all 52 x 7 other marked words. Exhaustive.",
     NOTE_LAYOUT, "DESIGN.md section 5, C20")


# --- as-built techniques and texts (override the first-draft strings above) ---
AS_BUILT = {'C01': ('runtime reference-model monitor over the exhaustive input space (all 2,598,960 hands x all 120 slot orders x 6 entry points) plus two-call histories within every rank multiset; two build profiles', 'Every five-card subset of the deck is driven through all six five-card entry points of the compiled crate in all 120 slot orders (fast leg; the checked leg of quick samples the orders) and each result is compared with an independent rules-of-poker ordinal, which closes the stated quantifier. The monitor also observes that all 7462 values are produced, how many cells of each lookup table were exercised (1287/1287/4888), and ranks every hand right after other hands of the same ranks (call-history independence).'), 'C02': ('runtime reference-model monitor over all 20,358,520 six-card and 133,784,560 seven-card subsets, row-targeting and all-slot-order workloads, twin call histories, state trace when the crate owns statics; two build profiles', 'Every 6- and 7-subset of the deck (canonical slot order) is ranked by the compiled crate and compared with a direct rule-based evaluation of the best hand; seeded slot orders, all four entry points on a seeded share, for every class x every five-slot row a hand whose uniquely best sub-hand sits exactly in that row, one hand per class and every single-suit hand in all 720/5040 slot orders, 32 extra orders for every straight-flush/quads hand, and flush-capable hands ranked right after their suit-swapped twins. Exhaustive in the subset dimension; other slot orders are sampled (stated limit).'), 'C03': ('runtime invariant monitor on the reported witness hand over all 5/6/7-card subsets (membership, distinctness, descending order, re-ranking), class-targeting and all-slot-order sets; two build profiles', None), 'C04': ('runtime oracle monitor: all 2^32 words through one slot, Hamming balls around cards in every slot, every slot-equality pattern x word-class mix, extreme-position duplicates, XOR/sum cancellation families, strong hands in every five-slot row with bad remaining slots, all card-or-blank arrays of sizes 2..4(5); two build profiles', None), 'C06': ('runtime reference-model monitor: all 65,536 values (also converted right after related predecessors) and all 2,598,960 hands in all 120 slot orders, names derived from the rules key by the variant-name grammar, no enumeration member without a value range; every straight-flush-capable six/seven-card hand through hand_rank() in directed slot orders (single-suit sixes in all 720); two build profiles', None), 'C07': ('runtime order-law monitor over all 2^32 ordered pairs (cmp, partial_cmp, < <= > >=, ==, !=, max, min) with an integer-key embedding that settles transitivity on all triples; conversions repeated in hostile call contexts; all value pairs for the enumerations; two build profiles', None), 'C08': ('runtime metamorphic monitor: model shift per slot, all 24 suit relabellings of every five-card hand in three slot orders through three entry points, three shifts of every six-card and (thorough: every) seven-card hand; two build profiles', None), 'C09': ('runtime metamorphic monitor (no oracle): v7 vs its seven v6, v6 vs its six v5, sub-hands made by slot deletion, through the plain and validated entry points (HandRank and value-and-hand entry points on a fixed quarter); single-suit hands in all slot orders; twin call histories; two build profiles', None), 'C10': ('runtime reference-model monitor: all 2^32 words through the card filter, 52 constants, 70 constructor pairs, all accessors, interleaved word/card call histories; two build profiles', None), 'C11': ('runtime reference-model monitor: 52x52 card order, sorting vs an independent insertion sort on all arrangements of a hostile 8-word alphabet, all word pairs one or two bits apart, seeded hands; two build profiles; Miri smoke leg', None), 'C12': ('runtime reference-model monitor: all 1,112,064 Unicode scalars through the symbol tables and inside hand texts of every size; structured, column-aligned, shortest-by-token-length-pattern, long and seeded texts and look-alike token sequences through every parser under catch_unwind; two build profiles; Miri smoke leg', None), 'C13': ('runtime reference-model monitor: four predicates on all 2,598,960 hands in all 120 slot orders vs suits/ranks by the rules and vs the ranked category; two build profiles', None), 'C14': ('runtime reference-model monitor: all 2^32 words word->bit, all 1..4(5)-bit, field-structured and seeded 64-bit values plus 4e10 (thorough 6e11) uniform values bit->word, 104 constants, interleaved call histories; two build profiles', None), 'C15': ('runtime model-based history monitor: peel sequences to exhaustion vs bit arithmetic; set algebra on structured and seeded sets; hands and texts (all Unicode separators, up to 240 tokens) to sets; two build profiles', None), 'C16': ('runtime reference-model monitor over all one-/two-(three-)bit sets, card bits x every subset of the non-card bits, field-structured sets, seeded sets of every population count, each converted twice in a row, under catch_unwind; two build profiles', None), 'C17': ('runtime reference-model monitor over all 2,652 ordered pairs and all 2,652 x 2,652 two-call histories, chains of five suit shifts, every constructor of the hand (incl. setter-built), oracle in integer half-points; two build profiles', None), 'C18': ('runtime invariant check at a quiescent point on constant data: every table entry vs the set of combinations it should enumerate; Deck::get on index classes (incl. indexes that wrap under small multipliers and field-structured indexes) and two-call histories; two build profiles', None), 'C19': ('runtime history monitor against an array model, compared after every operation: unique-word, repeated-word, card-shaped-word, consistently-marked, rank-completing and real-card histories; every five-card hand through every constructor; every selection tuple on class-covering containers; two build profiles; Miri smoke leg', None), 'C20': ('runtime reference-model monitor: 52 cards x all 121 mark sequences, accessors, strip, order vs all unmarked and marked words; two build profiles', None)}
for _pid, (_tech, _text) in AS_BUILT.items():
    PROPS[_pid]["technique"] = _tech
    if _text:
        PROPS[_pid]["level_text"] = _text
