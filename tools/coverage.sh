#!/bin/bash
# What did the monitors actually execute inside the crate?
#
# Builds the harness (and with it /repo's current working tree) with -Cinstrument-coverage on the nightly
# toolchain, runs the smoke tier of every monitor (and the quick tier of the small ones) against that build, merges the counters and writes
#   /verif/COVERAGE.md      per-file function/line/region coverage of /repo/src (non-test code is what matters) and
#                           the list of crate functions no monitor executed.
# This is a measurement of reach, not a check: it never produces a verdict. Scratch output goes to $COV_DIR
# (default /tmp/ckc-cov) and is removed at the end.
set -euo pipefail
VERIF="$(cd "$(dirname "$0")/.." && pwd)"
T="${COV_DIR:-/tmp/ckc-cov}"
TIER="smoke (+quick for the small monitors)"
BIN_DIR="$(dirname "$(find "$HOME/.rustup/toolchains" -path '*nightly-x86_64*' -name llvm-cov | head -1)")"
rm -rf "$T"; mkdir -p "$T/raw" "$T/out"
export CARGO_NET_OFFLINE=true
# (build scripts and proc-macros are instrumented too and write a profile when they run: send those to the scratch
# directory instead of the crates' source directories)
LLVM_PROFILE_FILE="$T/build-raw/build-%m-%p.profraw" RUSTFLAGS="-Cinstrument-coverage" cargo +nightly build --offline --release \
  --manifest-path "$VERIF/monitor/Cargo.toml" --target-dir "$T/target" 2>&1 | tail -2
# Instrumented counters are shared between threads (cache-line contention makes a 16-thread exhaustive pass ~100x
# slower), so: the smoke tier of every monitor on 2 threads, and in addition the quick tier on 4 threads for the
# monitors whose quick tier is small ($COV_QUICK).
QUICK_ONES="${COV_QUICK:-C11 C15 C16 C17 C18 C20}"
for n in $(seq -w 1 20); do
  p="C$n"
  s=$(date +%s)
  LLVM_PROFILE_FILE="$T/raw/$p-smoke-%p.profraw" "$T/target/release/ckcmon" "$p" --tier smoke --seed "${VERIF_SEED:-1}" \
     --threads 2 --leg fast --out "$T/out/$p.json" >/dev/null 2>"$T/out/$p.err" || echo "  $p: harness exit $?"
  if [[ " $QUICK_ONES " == *" $p "* ]]; then
    LLVM_PROFILE_FILE="$T/raw/$p-quick-%p.profraw" "$T/target/release/ckcmon" "$p" --tier quick --seed "${VERIF_SEED:-1}" \
       --threads 4 --leg fast --out "$T/out/$p.q.json" >/dev/null 2>"$T/out/$p.q.err" || echo "  $p: harness exit $?"
  fi
  echo "  $p ran in $(( $(date +%s) - s )) s"
done
"$BIN_DIR/llvm-profdata" merge -sparse "$T"/raw/*.profraw -o "$T/all.profdata"
"$BIN_DIR/llvm-cov" report "$T/target/release/ckcmon" -instr-profile="$T/all.profdata" \
   --ignore-filename-regex='(/\.cargo/|/rustc/|/verif/monitor/)' > "$T/report.txt" || true
"$BIN_DIR/llvm-cov" export "$T/target/release/ckcmon" -instr-profile="$T/all.profdata" -format=text \
   --ignore-filename-regex='(/\.cargo/|/rustc/|/verif/monitor/)' > "$T/export.json"
python3 "$VERIF/tools/coverage_md.py" "$T/export.json" "$T/report.txt" "$TIER" > "$VERIF/COVERAGE.md"
rm -rf "$T"
echo "wrote $VERIF/COVERAGE.md"
