#!/usr/bin/env python3
"""Independently confirm a seeded change produced by a sub-agent, then file it under /verif/seeded/<name>/.

  verify_seed.py <property> <name> <dir-with-patch.diff,demo.rs,meta.json>

In a fresh scratch worktree of /repo's HEAD (under /tmp, removed afterwards):
  1. the patch applies and touches only src/ (no tests changed: hunks inside #[cfg(test)] regions are refused by eye, see meta),
  2. with the patch: the unedited suite passes (2542/0) and the demonstration fails,
  3. without the patch: the demonstration passes.
Only then are patch.diff, demo.rs and meta.json (extended with what was run here) copied to /verif/seeded/<name>/.
"""
import json
import os
import shutil
import subprocess
import sys
import time

VERIF = os.path.dirname(os.path.dirname(os.path.abspath(__file__)))


def sh(cmd, **kw):
    return subprocess.run(cmd, stdout=subprocess.PIPE, stderr=subprocess.STDOUT, text=True, **kw)


def counts(out):
    p = f = 0
    for line in out.splitlines():
        if line.startswith("test result:"):
            parts = line.replace(";", "").split()
            p += int(parts[parts.index("passed") - 1])
            f += int(parts[parts.index("failed") - 1])
    return p, f


def main():
    prop, name, src = sys.argv[1:4]
    patch = os.path.join(src, "patch.diff")
    demo = os.path.join(src, "demo.rs")
    meta_p = os.path.join(src, "meta.json")
    for p in (patch, demo):
        if not os.path.exists(p):
            print("missing", p)
            sys.exit(2)
    tree = "/tmp/seedverify-%s" % name
    tgt = "/tmp/seedverify-target"
    sh(["git", "-C", "/repo", "worktree", "remove", "--force", tree])
    shutil.rmtree(tree, ignore_errors=True)
    r = sh(["git", "-C", "/repo", "worktree", "add", "--detach", tree, "HEAD"])
    if r.returncode != 0:
        print(r.stdout)
        sys.exit(2)
    env = dict(os.environ, CARGO_NET_OFFLINE="true", CARGO_TARGET_DIR=tgt)
    ok = True
    log = {}
    try:
        a = sh(["git", "-C", tree, "apply", "--check", patch])
        if a.returncode != 0:
            print("patch does not apply:", a.stdout)
            sys.exit(1)
        files = sh(["git", "-C", tree, "apply", "--numstat", patch]).stdout.split("\n")
        touched = [l.split("\t")[2] for l in files if l.count("\t") == 2]
        log["files_touched"] = touched
        if not touched or any(not t.startswith("src/") for t in touched):
            print("patch touches files outside src/:", touched)
            ok = False
        sh(["git", "-C", tree, "apply", patch])
        t0 = time.time()
        t = sh(["cargo", "test", "--workspace", "--no-fail-fast", "--offline"], cwd=tree, env=env)
        p, f = counts(t.stdout)
        log["with_change.suite"] = {"passed": p, "failed": f, "exit": t.returncode, "wall_s": round(time.time() - t0, 1)}
        if not (p == 2542 and f == 0 and t.returncode == 0):
            print("suite does not pass with the change: %d passed %d failed exit %d" % (p, f, t.returncode))
            ok = False
        os.makedirs(os.path.join(tree, "tests"), exist_ok=True)
        shutil.copy(demo, os.path.join(tree, "tests", "demo.rs"))
        d1 = sh(["cargo", "test", "--offline", "--test", "demo"], cwd=tree, env=env)
        p1, f1 = counts(d1.stdout)
        log["with_change.demo"] = {"passed": p1, "failed": f1, "exit": d1.returncode}
        if d1.returncode == 0 or f1 == 0:
            print("demonstration does not fail with the change (exit %d, %d failed)\n%s" % (d1.returncode, f1, d1.stdout[-1500:]))
            ok = False
        sh(["git", "-C", tree, "checkout", "--", "src"])
        d0 = sh(["cargo", "test", "--offline", "--test", "demo"], cwd=tree, env=env)
        p0, f0 = counts(d0.stdout)
        log["without_change.demo"] = {"passed": p0, "failed": f0, "exit": d0.returncode}
        if d0.returncode != 0 or f0 != 0 or p0 == 0:
            print("demonstration does not pass without the change (exit %d)\n%s" % (d0.returncode, d0.stdout[-1500:]))
            ok = False
    finally:
        sh(["git", "-C", "/repo", "worktree", "remove", "--force", tree])
        shutil.rmtree(tree, ignore_errors=True)
        sh(["git", "-C", "/repo", "worktree", "prune"])
    print(json.dumps(log, indent=1))
    if not ok:
        print("NOT CONFIRMED")
        sys.exit(1)
    dst = os.path.join(VERIF, "seeded", name)
    os.makedirs(dst, exist_ok=True)
    shutil.copy(patch, os.path.join(dst, "patch.diff"))
    shutil.copy(demo, os.path.join(dst, "demo.rs"))
    meta = {}
    if os.path.exists(meta_p):
        try:
            meta = json.load(open(meta_p))
        except Exception as e:  # noqa: BLE001
            meta = {"agent_meta_unreadable": str(e), "raw": open(meta_p).read()[:4000]}
    out = {
        "breaks_property": prop,
        "origin": "independent sub-agent given only the property text and a scratch worktree",
        "needs_to_manifest": meta.get("needs_to_manifest", ""),
        "summary": meta.get("summary", ""),
        "fraction_of_inputs_affected": meta.get("fraction_of_inputs_affected", ""),
        "agent_reported": {k: meta.get(k) for k in ("commands_run", "results") if k in meta},
        "confirmed_here": log,
        "confirmed_with": "tools/verify_seed.py: scratch worktree of /repo HEAD; cargo test --workspace --no-fail-fast --offline (with change); "
                          "cargo test --offline --test demo (with and without change)",
    }
    with open(os.path.join(dst, "meta.json"), "w") as fh:
        json.dump(out, fh, indent=1)
        fh.write("\n")
    print("CONFIRMED -> %s" % dst)


if __name__ == "__main__":
    main()
