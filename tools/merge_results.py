#!/usr/bin/env python3
"""Merge result files written by mutants/run_mutants.py (--out) into one: later files win per check.

  merge_results.py TARGET.json SRC1.json [SRC2.json ...]

Entries are keyed by patch; per patch the `checks` maps are united (a check run again later replaces the earlier
record), everything else is taken from the latest file that has the patch."""
import json
import os
import sys


def main():
    target = sys.argv[1]
    merged = json.load(open(target)) if os.path.exists(target) else {}
    for src in sys.argv[2:]:
        if not os.path.exists(src):
            print("skip (missing)", src)
            continue
        data = json.load(open(src))
        for patch, rec in data.items():
            old = merged.get(patch)
            if old is None:
                merged[patch] = rec
                continue
            checks = dict(old.get("checks", {}))
            checks.update(rec.get("checks", {}))
            new = dict(old)
            new.update(rec)
            new["checks"] = checks
            merged[patch] = new
    with open(target, "w") as fh:
        json.dump(merged, fh, indent=1, sort_keys=True)
    print(target, len(merged), "patches")


if __name__ == "__main__":
    main()
