#!/usr/bin/env python3
"""Regenerate /verif/MANIFEST.json from tools/propcfg.py (and validate it)."""
import json
import os
import sys

HERE = os.path.dirname(os.path.abspath(__file__))
VERIF = os.path.dirname(HERE)
sys.path.insert(0, HERE)
from propcfg import PROPS  # noqa: E402

ALL = ["C%02d" % i for i in range(1, 21)]
manifest = {
    "version": 1,
    "setup_cmd": "./setup.sh",
    "hooks": {
        "guard": "ckc_rs_verif",
        "enable": "none needed: every observation point of C01-C20 is public API, so /repo carries no instrumentation; "
                  "the guard name is reserved and unused (checks build /repo as it stands, as a path dependency of /verif/monitor)",
        "baseline_off_cmd": "cd /repo && cargo test --workspace --no-fail-fast --offline",
        "source_commits": [],
        "add_only": True,
    },
    "engines": [{
        "name": "ckcmon",
        "path": "/verif/monitor",
        "serves_properties": [p for p in ALL if p in PROPS and PROPS[p]["built"]],
        "kind_free_text": "Rust harness linking the real crate: reference-model / metamorphic / history monitors over exhaustive, "
                          "structured and seeded workloads, run in two build profiles (plain release; overflow-checks + debug-assertions) "
                          "plus Miri smoke legs; orchestrated by /verif/check",
    }],
    "checks": [],
    "not_applicable": [],
    "notes": "Three genuine defects were found and repaired by unguarded fix: commits in /repo (see KNOWN_FINDINGS.txt and DESIGN.md section 6). "
             "Exit codes of ./check: 0 held, 1 violation (VIOLATION line + replay file), 2 inconclusive (never on the unchanged tree).",
}
for pid in ALL:
    cfg = PROPS.get(pid)
    if cfg is None or not cfg["built"]:
        manifest["not_applicable"].append({
            "property_id": pid,
            "reason": "monitor under construction in this session; will be claimed once it exists and is silent on the unchanged tree",
        })
        continue
    manifest["checks"].append({
        "property_id": pid,
        "quick_cmd": "./check %s quick" % pid,
        "thorough_cmd": "./check %s thorough" % pid,
        "evidence_file": "/verif/evidence/%s.json" % pid,
        "replay_cmd_template": "./check %s --replay {path}" % pid,
        "engine": "ckcmon",
        "level_claimed": {"category": "exploration", "text": cfg["level_text"], "design_ref": cfg["design_ref"]},
        "level_note": cfg["level_note"],
        "technique": cfg["technique"],
    })
if not manifest["not_applicable"]:
    del manifest["not_applicable"]
path = os.path.join(VERIF, "MANIFEST.json")
with open(path, "w") as fh:
    json.dump(manifest, fh, indent=1)
    fh.write("\n")
try:
    import jsonschema
    jsonschema.validate(manifest, json.load(open("/root/.vp/MANIFEST.schema.json")))
    print("MANIFEST.json written and valid: %d checks, %d not_applicable" % (len(manifest["checks"]), len(manifest.get("not_applicable", []))))
except ImportError:
    print("MANIFEST.json written (jsonschema not importable here; not validated)")
