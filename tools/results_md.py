#!/usr/bin/env python3
"""Render mutants/results.json and seeded/results.json as markdown tables (mutants/RESULTS.md, seeded/RESULTS.md)."""
import json, os, sys
VERIF = os.path.dirname(os.path.dirname(os.path.abspath(__file__)))

def render(path, title, out, note):
    if not os.path.exists(path):
        return
    res = json.load(open(path))
    lines = ["# %s" % title, "", note, "",
             "| change | target | suite (passed/total) | target check | caught by | silent checks run |", "|---|---|---|---|---|---|"]
    n = caught = 0
    for name in sorted(res):
        r = res[name]
        if not r.get("applies", True):
            lines.append("| %s | %s | does not apply | - | - | - |" % (name, r.get("property")))
            continue
        t = r.get("tests")
        suite = "%d/%d" % (t["passed"], t["passed"] + t["failed"]) if t else "(confirmed separately)"
        checks = r.get("checks", {})
        by = [c for c, v in checks.items() if v["exit"] == 1]
        inc = [c for c, v in checks.items() if v["exit"] not in (0, 1)]
        silent = [c for c, v in checks.items() if v["exit"] == 0]
        tgt = r.get("property")
        verdict = "CAUGHT" if tgt in by else ("inconclusive" if tgt in inc else "missed")
        n += 1
        caught += verdict == "CAUGHT"
        lines.append("| %s | %s | %s | %s | %s | %s |" % (name.replace("/patch.diff", ""), tgt, suite, verdict, " ".join(by) or "-", " ".join(silent) if len(silent) <= 6 else "%d others" % len(silent)))
    lines += ["", "%d of %d changes caught by the check of the property they target." % (caught, n), ""]
    open(out, "w").write("\n".join(lines))
    print(out, caught, "/", n)

render(os.path.join(VERIF, "mutants", "results.json"), "Hand-written mutants vs. the quick checks",
       os.path.join(VERIF, "mutants", "RESULTS.md"),
       "Produced by `mutants/run_mutants.py` (scratch worktree of /repo HEAD; unedited suite = `cargo test --workspace --no-fail-fast --offline`; "
       "checks = `./check <ID> quick`). A suite count below 2542 means the existing tests already catch that mutant; it is kept to show the monitor sees it too.")
render(os.path.join(VERIF, "seeded", "results.json"), "Changes seeded by independent sub-agents vs. all twenty quick checks",
       os.path.join(VERIF, "seeded", "RESULTS.md"),
       "Each change was produced by a fresh sub-agent given only the property text and a scratch worktree, then confirmed by `tools/verify_seed.py` "
       "(suite passes 2542/0 with the change; its demonstration fails with and passes without it). Checks = `./check <ID> quick` for all twenty properties.")
