//! Workload drivers: deterministic work-sharing over threads, PRNG, panic capture.

use crate::common::{Ctx, Input, Rep};
use std::cell::RefCell;
use std::panic::{catch_unwind, AssertUnwindSafe};
use std::sync::atomic::{AtomicU64, AtomicUsize, Ordering};

// ---------------------------------------------------------------------------
// PRNG: SplitMix64 (all arithmetic wrapping, so it is overflow-check clean).

#[derive(Clone)]
pub struct Rng(pub u64);

impl Rng {
    pub fn new(seed: u64, stream: u64) -> Rng {
        let mut r = Rng(seed ^ stream.wrapping_mul(0x9E37_79B9_7F4A_7C15) ^ 0xD1B5_4A32_D192_ED03);
        r.next();
        r.next();
        r
    }
    #[inline]
    pub fn next(&mut self) -> u64 {
        self.0 = self.0.wrapping_add(0x9E37_79B9_7F4A_7C15);
        let mut z = self.0;
        z = (z ^ (z >> 30)).wrapping_mul(0xBF58_476D_1CE4_E5B9);
        z = (z ^ (z >> 27)).wrapping_mul(0x94D0_49BB_1331_11EB);
        z ^ (z >> 31)
    }
    #[inline]
    pub fn below(&mut self, n: u64) -> u64 {
        // multiply-shift; bias is irrelevant for workload generation
        ((self.next() as u128 * n as u128) >> 64) as u64
    }
    #[inline]
    pub fn u32(&mut self) -> u32 {
        (self.next() >> 32) as u32
    }
    pub fn shuffle<T>(&mut self, v: &mut [T]) {
        let n = v.len();
        for i in (1..n).rev() {
            let j = self.below(i as u64 + 1) as usize;
            v.swap(i, j);
        }
    }
    pub fn chance(&mut self, num: u64, den: u64) -> bool {
        self.below(den) < num
    }
}

// ---------------------------------------------------------------------------
// Panic capture.

thread_local! {
    static LAST_PANIC: RefCell<Option<String>> = const { RefCell::new(None) };
}

pub fn install_silent_panic_hook() {
    std::panic::set_hook(Box::new(|info| {
        let msg = if let Some(s) = info.payload().downcast_ref::<&str>() {
            s.to_string()
        } else if let Some(s) = info.payload().downcast_ref::<String>() {
            s.clone()
        } else {
            "<non-string panic payload>".to_string()
        };
        let loc = info.location().map(|l| format!(" at {}:{}", l.file(), l.line())).unwrap_or_default();
        LAST_PANIC.with(|p| *p.borrow_mut() = Some(format!("{}{}", msg, loc)));
    }));
}

/// Run one call into the crate; Err(message) if it unwound.
#[inline]
pub fn guard<T>(f: impl FnOnce() -> T) -> Result<T, String> {
    match catch_unwind(AssertUnwindSafe(f)) {
        Ok(v) => Ok(v),
        Err(_) => Err(LAST_PANIC.with(|p| p.borrow_mut().take()).unwrap_or_else(|| "<panic>".to_string())),
    }
}

/// Reduce a panic message to a class (strip numbers) for counting.
pub fn panic_class(msg: &str) -> String {
    let mut out = String::new();
    let mut last_digit = false;
    for c in msg.chars() {
        if c.is_ascii_digit() {
            if !last_digit {
                out.push('#');
            }
            last_digit = true;
        } else {
            out.push(c);
            last_digit = false;
        }
    }
    out
}

// ---------------------------------------------------------------------------
// Work sharing.
//
// `n_units` units are handed out through an atomic counter; each worker owns
// its state (no shared monitor state), and the states are merged by the caller.
// A unit that unwinds (a panic that escaped the per-call guards, i.e. on a path
// where the property does not expect any) is recorded as a violation with the
// in-flight case the worker last published through `St::cur`.

pub struct St<X> {
    pub rep: Rep,
    pub x: X,
    /// the case in flight, published cheaply by the unit before calling the crate
    pub cur: [u32; 8],
    pub cur_len: usize,
    pub cur_what: &'static str,
}

impl<X> St<X> {
    #[inline]
    pub fn flight(&mut self, what: &'static str, words: &[u32]) {
        let n = words.len().min(8);
        self.cur[..n].copy_from_slice(&words[..n]);
        self.cur_len = n;
        self.cur_what = what;
    }
}

pub fn par_run<X, MK, W>(ctx: &Ctx, n_units: usize, mk: MK, work: W) -> Vec<St<X>>
where
    X: Send,
    MK: Fn() -> X + Sync,
    W: Fn(&mut St<X>, usize) + Sync,
{
    let next = AtomicUsize::new(0);
    let threads = ctx.threads.max(1).min(n_units.max(1));
    let mut out = Vec::new();
    std::thread::scope(|s| {
        let mut hs = Vec::new();
        for _ in 0..threads {
            hs.push(s.spawn(|| {
                let mut st = St { rep: Rep::new(), x: mk(), cur: [0; 8], cur_len: 0, cur_what: "" };
                loop {
                    let u = next.fetch_add(1, Ordering::Relaxed);
                    if u >= n_units {
                        break;
                    }
                    let r = guard(|| work(&mut st, u));
                    if let Err(msg) = r {
                        let words = st.cur[..st.cur_len].to_vec();
                        let what = st.cur_what;
                        st.rep.add("units_aborted_by_panic", 1);
                        st.rep.violation(
                            "panic",
                            what,
                            Input::Words(words),
                            "normal return".to_string(),
                            format!("panicked: {}", msg),
                        );
                    }
                }
                st
            }));
        }
        for h in hs {
            out.push(h.join().expect("worker thread itself must not die"));
        }
    });
    out
}

/// Merge the reports of the workers, returning the payloads for the caller.
pub fn merge_states<X>(v: Vec<St<X>>) -> (Rep, Vec<X>) {
    let mut rep = Rep::new();
    let mut xs = Vec::new();
    for s in v {
        rep.merge(s.rep);
        xs.push(s.x);
    }
    (rep, xs)
}

// ---------------------------------------------------------------------------
// Hang watchdog (used by C05): workers publish a heartbeat and the key in
// flight; if every heartbeat stops for `limit_s` the in-flight cases are dumped
// and the process exits with code 3 (the orchestrator then re-runs each
// suspect alone; only a single isolated call that does not return is a verdict).

pub struct Heart {
    pub beats: Vec<AtomicU64>,
    pub inflight: Vec<[AtomicU64; 8]>,
    pub inflight_len: Vec<AtomicU64>,
    pub done: AtomicU64,
}

impl Heart {
    pub fn new(n: usize) -> Heart {
        Heart {
            beats: (0..n).map(|_| AtomicU64::new(0)).collect(),
            inflight: (0..n).map(|_| std::array::from_fn(|_| AtomicU64::new(0))).collect(),
            inflight_len: (0..n).map(|_| AtomicU64::new(0)).collect(),
            done: AtomicU64::new(0),
        }
    }
}

// ---------------------------------------------------------------------------
// Combination helpers.

/// all (a, b) with a < b < n, in lexicographic order
pub fn pairs(n: u8) -> Vec<(u8, u8)> {
    let mut v = Vec::new();
    for a in 0..n {
        for b in (a + 1)..n {
            v.push((a, b));
        }
    }
    v
}

/// all (a, b) with a <= b < n
pub fn pairs_rep(n: u8) -> Vec<(u8, u8)> {
    let mut v = Vec::new();
    for a in 0..n {
        for b in a..n {
            v.push((a, b));
        }
    }
    v
}

/// k-th permutation (Lehmer / factorial number system) of 0..n, n <= 8
pub fn nth_permutation(n: usize, mut k: u64) -> [u8; 8] {
    let mut items: Vec<u8> = (0..n as u8).collect();
    let mut out = [0u8; 8];
    let mut f: u64 = (1..=n as u64).product();
    for i in 0..n {
        f /= (n - i) as u64;
        let j = (k / f) as usize;
        k %= f;
        out[i] = items.remove(j);
    }
    out
}

pub fn factorial(n: usize) -> u64 {
    (1..=n as u64).product()
}

/// All set partitions of {0..n} as restricted-growth strings.
pub fn set_partitions(n: usize) -> Vec<Vec<u8>> {
    fn rec(n: usize, cur: &mut Vec<u8>, maxb: u8, out: &mut Vec<Vec<u8>>) {
        if cur.len() == n {
            out.push(cur.clone());
            return;
        }
        for b in 0..=maxb {
            cur.push(b);
            rec(n, cur, if b == maxb { maxb + 1 } else { maxb }, out);
            cur.pop();
        }
    }
    let mut out = Vec::new();
    rec(n, &mut Vec::new(), 0, &mut out);
    out
}

/// FNV-1a over words, for distinct-counting through hash sets
pub fn hash_words(ws: &[u32]) -> u64 {
    let mut h: u64 = 0xcbf29ce484222325;
    for &w in ws {
        for b in w.to_le_bytes() {
            h ^= b as u64;
            h = h.wrapping_mul(0x100000001b3);
        }
    }
    h
}

pub fn hash_bytes(bs: &[u8]) -> u64 {
    let mut h: u64 = 0xcbf29ce484222325;
    for &b in bs {
        h ^= b as u64;
        h = h.wrapping_mul(0x100000001b3);
    }
    h
}

// ---------------------------------------------------------------------------
// Parallel enumeration of all N-subsets of the 52 deck indices (ascending
// order inside each subset). Work units are the first two indices.

/// SplitMix64 finaliser: seeded, thread-independent selection of sub-samples.
#[inline]
pub fn mix(mut z: u64) -> u64 {
    z = (z ^ (z >> 30)).wrapping_mul(0xBF58_476D_1CE4_E5B9);
    z = (z ^ (z >> 27)).wrapping_mul(0x94D0_49BB_1331_11EB);
    z ^ (z >> 31)
}

#[inline]
pub fn hand_code(c: &[u8]) -> u64 {
    let mut x = 0u64;
    for &i in c {
        x = (x << 6) | i as u64;
    }
    x
}

/// true for about one in `n` hands, chosen by a seeded hash of the hand
#[inline]
pub fn selected(c: &[u8], seed: u64, salt: u64, n: u64) -> bool {
    n <= 1 || mix(hand_code(c) ^ seed.wrapping_mul(0x9E37_79B9_7F4A_7C15) ^ salt) % n == 0
}

pub fn par_subsets<const N: usize, X, MK, W>(ctx: &Ctx, unit_stride: usize, mk: MK, work: W) -> Vec<St<X>>
where
    X: Send,
    MK: Fn() -> X + Sync,
    W: Fn(&mut St<X>, &[u8; N], usize) + Sync,
{
    assert!(N >= 3 && N <= 8);
    let units = pairs(52);
    let ids: Vec<usize> = (0..units.len()).filter(|u| u % unit_stride.max(1) == 0).collect();
    par_run(ctx, ids.len(), mk, |st, ui| {
        let u = ids[ui];
        let (a, b) = units[u];
        let k = N - 2;
        if (b as usize) + k > 51 {
            return;
        }
        let mut c = [0u8; N];
        c[0] = a;
        c[1] = b;
        for j in 0..k {
            c[2 + j] = b + 1 + j as u8;
        }
        loop {
            work(st, &c, u);
            // next combination of the tail within (b, 52)
            let mut i = N - 1;
            loop {
                let maxv = 52 - (N - i) as u8; // largest value position i may take
                if c[i] < maxv {
                    c[i] += 1;
                    for j in (i + 1)..N {
                        c[j] = c[j - 1] + 1;
                    }
                    break;
                }
                if i == 2 {
                    return;
                }
                i -= 1;
            }
        }
    })
}

/// seeded permutation of a fixed-size array
#[inline]
pub fn permuted<const N: usize>(c: &[u8; N], rng: &mut Rng) -> [u8; N] {
    let mut p = *c;
    for i in (1..N).rev() {
        let j = rng.below(i as u64 + 1) as usize;
        p.swap(i, j);
    }
    p
}

/// all k-subsets of 0..n in lexicographic order (harness's own slot bookkeeping)
pub fn slot_subsets(n: usize, k: usize) -> Vec<Vec<u8>> {
    fn rec(n: usize, k: usize, start: usize, cur: &mut Vec<u8>, out: &mut Vec<Vec<u8>>) {
        if cur.len() == k {
            out.push(cur.clone());
            return;
        }
        for i in start..n {
            cur.push(i as u8);
            rec(n, k, i + 1, cur, out);
            cur.pop();
        }
    }
    let mut out = Vec::new();
    rec(n, k, 0, &mut Vec::new(), &mut out);
    out
}

/// Parallel enumeration of all N-multisets (non-decreasing arrays) over 0..alphabet.
/// Units are the first two elements (a <= b).
pub fn par_multisets<const N: usize, X, MK, W>(ctx: &Ctx, alphabet: u8, unit_stride: usize, mk: MK, work: W) -> Vec<St<X>>
where
    X: Send,
    MK: Fn() -> X + Sync,
    W: Fn(&mut St<X>, &[u8; N], usize) + Sync,
{
    assert!(N >= 3 && N <= 8);
    let units = pairs_rep(alphabet);
    let ids: Vec<usize> = (0..units.len()).filter(|u| u % unit_stride.max(1) == 0).collect();
    par_run(ctx, ids.len(), mk, |st, ui| {
        let u = ids[ui];
        let (a, b) = units[u];
        let mut c = [0u8; N];
        c[0] = a;
        c[1] = b;
        for j in 2..N {
            c[j] = b;
        }
        loop {
            work(st, &c, u);
            let mut i = N - 1;
            loop {
                if c[i] < alphabet - 1 {
                    c[i] += 1;
                    for j in (i + 1)..N {
                        c[j] = c[i];
                    }
                    break;
                }
                if i == 2 {
                    return;
                }
                i -= 1;
            }
        }
    })
}

/// "Twins" of a hand of distinct cards: the same ranks with the suits of two cards exchanged (same rank
/// multiset, same suit histogram, different hand). These are the inputs a lossy cache key built from
/// rank primes, sums or suit counts would confuse with the hand itself.
pub fn suit_swap_twins(c: &[u8]) -> Vec<Vec<u8>> {
    let n = c.len();
    let mut out = Vec::new();
    for i in 0..n {
        for j in (i + 1)..n {
            let (ri, si) = (12 - c[i] % 13, c[i] / 13);
            let (rj, sj) = (12 - c[j] % 13, c[j] / 13);
            if si == sj || ri == rj {
                continue;
            }
            let a = sj * 13 + (12 - ri);
            let b = si * 13 + (12 - rj);
            if c.contains(&a) || c.contains(&b) {
                continue;
            }
            let mut t = c.to_vec();
            t[i] = a;
            t[j] = b;
            out.push(t);
        }
    }
    out
}

#[inline]
pub fn max_suit_count(c: &[u8]) -> u32 {
    let mut n = [0u32; 4];
    for &x in c {
        n[(x / 13) as usize] += 1;
    }
    *n.iter().max().unwrap()
}

/// Sequential enumeration of all N-subsets of 0..52 in lexicographic order with their running index.
pub fn for_each_subset<const N: usize>(mut f: impl FnMut(&[u8; N], u32)) {
    let mut c = [0u8; N];
    for j in 0..N {
        c[j] = j as u8;
    }
    let mut id = 0u32;
    loop {
        f(&c, id);
        id += 1;
        let mut i = N;
        loop {
            if i == 0 {
                return;
            }
            i -= 1;
            let maxv = 52 - (N - i) as u8;
            if c[i] < maxv {
                c[i] += 1;
                for j in (i + 1)..N {
                    c[j] = c[j - 1] + 1;
                }
                break;
            }
        }
    }
}

fn binom(n: u64, k: u64) -> u64 {
    if k > n {
        return 0;
    }
    let mut r = 1u64;
    for i in 0..k {
        r = r * (n - i) / (i + 1);
    }
    r
}

/// the `id`-th N-subset of 0..52 in lexicographic order
pub fn nth_subset<const N: usize>(mut id: u64) -> [u8; N] {
    let mut c = [0u8; N];
    let mut next = 0u64;
    for i in 0..N {
        let mut v = next;
        loop {
            let cnt = binom(51 - v, (N - 1 - i) as u64);
            if id < cnt {
                break;
            }
            id -= cnt;
            v += 1;
        }
        c[i] = v as u8;
        next = v + 1;
    }
    c
}

/// 64-bit values built from equal-width fields (bytes, 16-bit and 32-bit words, nibbles): every field is
/// empty or one of two field values A, B (all 3^n assignments for 8, 4 and 2 fields), A from a palette of
/// single bits, small numbers, masks and seeded values and B equal to A, its complement, its negative, 1 or seeded; plus each
/// palette value replicated over all fields, the even ones, the odd ones and either half. Code that
/// folds, compares or counts a 64-bit value word by word (XOR/OR folds, bit-sliced counters, per-byte tables)
/// goes wrong on values whose fields repeat or cancel - which neither few-bit sets, power-of-two
/// neighbourhoods nor uniformly random values contain.
pub fn field_structured_u64(seed: u64) -> Vec<u64> {
    let mut out: Vec<u64> = Vec::new();
    let mut rng = Rng::new(seed, 0xF1E1D);
    for &w in &[4u32, 8, 16, 32] {
        let n = (64 / w) as usize;
        let mask = if w == 64 { u64::MAX } else { (1u64 << w) - 1 };
        let mut palette: Vec<u64> = vec![1, 2, 3, 51 & mask, 52 & mask, mask, mask >> 1, 1 << (w - 1), 0x5555_5555_5555_5555 & mask, 0xAAAA_AAAA_AAAA_AAAA & mask];
        for k in 0..w.min(16) {
            palette.push(1u64 << k);
        }
        for _ in 0..4 {
            palette.push(rng.next() & mask);
        }
        palette.sort_unstable();
        palette.dedup();
        palette.retain(|&p| p != 0);
        let place = |vals: &dyn Fn(usize) -> u64| -> u64 {
            let mut v = 0u64;
            for f in 0..n {
                v |= (vals(f) & mask) << (w as usize * f);
            }
            v
        };
        for &a in &palette {
            out.push(place(&|_| a));
            out.push(place(&|f| if f % 2 == 0 { a } else { 0 }));
            out.push(place(&|f| if f % 2 == 1 { a } else { 0 }));
            out.push(place(&|f| if f < n / 2 { a } else { 0 }));
            out.push(place(&|f| if f >= n / 2 { a } else { 0 }));
            if n <= 8 {
                let bs = [a, !a & mask, 1, rng.next() & mask, a.wrapping_neg() & mask]; // equal, complement, one, seeded, two's-complement negative (fields summing to 2^w)
                for &b in &bs {
                    let total = 3usize.pow(n as u32);
                    for code in 0..total {
                        let mut c = code;
                        let mut v = 0u64;
                        for f in 0..n {
                            let x = match c % 3 {
                                0 => 0,
                                1 => a,
                                _ => b,
                            };
                            c /= 3;
                            v |= x << (w as usize * f);
                        }
                        out.push(v);
                    }
                }
            }
        }
    }
    out.sort_unstable();
    out.dedup();
    out
}

/// Every 16-bit pattern at every bit offset of a 64-bit value (65,535 x 49 values): all the values whose set
/// bits fit in a 16-bit window - every byte value at every byte position among them. Code that decodes a
/// 64-bit value through per-byte or per-word tables is wrong on a particular *pattern* inside one byte or
/// word, which few-bit sets (at most 4-5 bits) and field-replicated values do not enumerate.
pub fn for_each_window_value(mut f: impl FnMut(u64)) {
    for off in 0..=48u32 {
        for p in 1..=0xFFFFu64 {
            // each value once: require the lowest bit of the pattern to be set, except at offset 0
            if off == 0 || p & 1 == 1 {
                f(p << off);
            }
        }
    }
}
