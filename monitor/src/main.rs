#![allow(dead_code)]
//! ckcmon — runtime monitors for the properties C01..C20 of ContractBridge/ckc-rs.
//!
//!   ckcmon <ID> --tier quick|thorough|smoke --seed N --leg NAME --out FILE
//!   ckcmon <ID> --replay-kind K --replay-data D [--replay-clause C] --leg NAME --out FILE
//!
//! Exit codes: 0 = ran to completion (verdict is in FILE), 2 = usage / harness
//! error, 3 = hang suspect dumped (C05 protocol).

mod common;
mod drive;
mod model;
mod props;
mod statewatch;

use common::{Ctx, Input, Rep, Tier};
use std::time::Instant;

fn usage() -> ! {
    eprintln!("usage: ckcmon <ID> [--tier quick|thorough|smoke] [--seed N] [--leg NAME] [--threads N] --out FILE [--replay-kind K --replay-data D --replay-clause C]");
    std::process::exit(2);
}

fn main() {
    let args: Vec<String> = std::env::args().collect();
    if args.len() < 2 {
        usage();
    }
    let prop = args[1].to_uppercase();
    let mut tier = Tier::Quick;
    let mut seed: u64 = 1;
    let mut leg = "fast".to_string();
    let mut out: Option<String> = None;
    let mut threads = std::thread::available_parallelism().map(|n| n.get()).unwrap_or(4);
    let mut rk: Option<String> = None;
    let mut rd: Option<String> = None;
    let mut rc = String::new();
    let mut escalate = false;
    let mut statics: Option<statewatch::Watch> = None;
    let mut i = 2;
    while i < args.len() {
        let a = args[i].as_str();
        let v = args.get(i + 1).cloned();
        let need = |v: Option<String>| v.unwrap_or_else(|| usage());
        match a {
            "--tier" => {
                tier = match need(v).as_str() {
                    "quick" => Tier::Quick,
                    "thorough" => Tier::Thorough,
                    "smoke" => Tier::Smoke,
                    _ => usage(),
                };
                i += 2;
            }
            "--seed" => {
                seed = need(v).parse().unwrap_or_else(|_| usage());
                i += 2;
            }
            "--leg" => {
                leg = need(v);
                i += 2;
            }
            "--threads" => {
                threads = need(v).parse().unwrap_or_else(|_| usage());
                i += 2;
            }
            "--out" => {
                out = Some(need(v));
                i += 2;
            }
            "--replay-kind" => {
                rk = Some(need(v));
                i += 2;
            }
            "--replay-data" => {
                rd = Some(need(v));
                i += 2;
            }
            "--escalate" => {
                escalate = true;
                i += 1;
            }
            "--statics" => {
                statics = statewatch::Watch::parse(&need(v));
                i += 2;
            }
            "--replay-clause" => {
                rc = need(v);
                i += 2;
            }
            _ => usage(),
        }
    }
    let ctx = Ctx { tier, seed, leg, threads, escalate, statics };
    drive::install_silent_panic_hook();
    let t0 = Instant::now();
    let rep: Rep = if let Some(k) = rk {
        let inp = match Input::parse(&k, rd.as_deref().unwrap_or("")) {
            Ok(x) => x,
            Err(e) => {
                eprintln!("ckcmon: bad replay input: {}", e);
                std::process::exit(2);
            }
        };
        match props::replay(&prop, &ctx, &inp, &rc) {
            Some(r) => r,
            None => {
                eprintln!("ckcmon: property {} is not built into this binary", prop);
                std::process::exit(2);
            }
        }
    } else {
        match props::run(&prop, &ctx) {
            Some(r) => r,
            None => {
                eprintln!("ckcmon: property {} is not built into this binary", prop);
                std::process::exit(2);
            }
        }
    };
    let wall = t0.elapsed().as_secs_f64();
    let json = rep.to_json(&prop, &ctx, wall);
    match out {
        Some(p) => {
            if let Err(e) = std::fs::write(&p, json) {
                eprintln!("ckcmon: cannot write {}: {}", p, e);
                std::process::exit(2);
            }
        }
        None => print!("{}", json),
    }
}
