//! Observation hook on the crate's hidden state (only active when `./check` found writable statics
//! owned by ckc_rs in the built binary and passed their addresses with `--statics`).
//!
//! The bytes of those statics are read (never written) between calls. That turns an otherwise
//! unobservable cache into a trace: after ranking hand x the cell that changed holds some encoding of
//! (key(x), value(x)). Two different hands that leave the same key behind are a *candidate* for a stale
//! hit; the verdict is only ever an actual wrong result of the two-call history `rank(x); rank(y)`
//! compared with the oracle - the state trace is a search heuristic, not an oracle.

use std::collections::HashMap;

#[no_mangle]
pub static CKCMON_ANCHOR: u8 = 0x5A;

#[derive(Clone, Debug)]
pub struct Watch {
    /// runtime address ranges (start, len) of the crate's writable statics
    pub ranges: Vec<(usize, usize)>,
    pub names: Vec<String>,
}

impl Watch {
    /// spec: "<anchor_nm_addr_hex>;<name>:<addr_hex>:<size_hex>,..." as printed by nm -S
    pub fn parse(spec: &str) -> Option<Watch> {
        let (anchor, rest) = spec.split_once(';')?;
        let anchor_nm = usize::from_str_radix(anchor.trim_start_matches("0x"), 16).ok()?;
        let runtime = &CKCMON_ANCHOR as *const u8 as usize;
        let bias = runtime.wrapping_sub(anchor_nm);
        let mut ranges = Vec::new();
        let mut names = Vec::new();
        for item in rest.split(',').filter(|s| !s.is_empty()) {
            let mut it = item.rsplitn(3, ':');
            let size = usize::from_str_radix(it.next()?, 16).ok()?;
            let addr = usize::from_str_radix(it.next()?, 16).ok()?;
            let name = it.next()?.to_string();
            if size == 0 || size > 1 << 16 {
                continue;
            }
            ranges.push((addr.wrapping_add(bias), size));
            names.push(name);
        }
        if ranges.is_empty() {
            None
        } else {
            Some(Watch { ranges, names })
        }
    }

    pub fn total_len(&self) -> usize {
        self.ranges.iter().map(|r| r.1).sum()
    }

    /// copy of the watched bytes (volatile reads; the harness is quiescent while this is used)
    pub fn snapshot(&self, out: &mut Vec<u8>) {
        out.clear();
        for &(a, n) in &self.ranges {
            for k in 0..n {
                out.push(unsafe { std::ptr::read_volatile((a + k) as *const u8) });
            }
        }
    }
}

/// One observation: the 8-byte-aligned windows of watched memory that changed during a call.
fn changed_cell(before: &[u8], after: &[u8]) -> Option<(usize, [u8; 16])> {
    let first = before.iter().zip(after).position(|(a, b)| a != b)?;
    let start = first & !7;
    let mut cell = [0u8; 16];
    for k in 0..16 {
        if start + k < after.len() {
            cell[k] = after[start + k];
        }
    }
    Some((start, cell))
}

pub struct Trace {
    /// (slot offset, cell contents, input id, oracle value)
    pub recs: Vec<(u32, [u8; 16], u32, u16)>,
}

impl Trace {
    pub fn new() -> Trace {
        Trace { recs: Vec::new() }
    }

    /// call `f`, then record what it left behind in the watched statics
    pub fn observe<R>(&mut self, w: &Watch, scratch: &mut (Vec<u8>, Vec<u8>), id: u32, value: u16, f: impl FnOnce() -> R) -> R {
        if scratch.0.is_empty() {
            w.snapshot(&mut scratch.0);
        }
        let r = f();
        w.snapshot(&mut scratch.1);
        if let Some((off, cell)) = changed_cell(&scratch.0, &scratch.1) {
            self.recs.push((off as u32, cell, id, value));
        }
        std::mem::swap(&mut scratch.0, &mut scratch.1);
        r
    }

    /// Pairs of inputs (x, y) that left the same cell behind once the bits that merely copy the value are
    /// masked out, although their values differ: candidates for a stale hit, at most `cap` of them.
    pub fn collision_candidates(&self, cap: usize) -> Vec<(u32, u32)> {
        if self.recs.len() < 2 {
            return Vec::new();
        }
        // bits of the cell that equal a bit of the value on every record (the stored value)
        let mut value_mask = [0u8; 16];
        for byte in 0..16 {
            for bit in 0..8 {
                for j in 0..16 {
                    let mut all = true;
                    let mut varies = false;
                    let first = (self.recs[0].3 >> j) & 1;
                    for r in self.recs.iter().take(200_000) {
                        let vb = (r.3 >> j) & 1;
                        if vb != first {
                            varies = true;
                        }
                        if ((r.1[byte] >> bit) & 1) as u16 != vb {
                            all = false;
                            break;
                        }
                    }
                    if all && varies {
                        value_mask[byte] |= 1 << bit;
                    }
                }
            }
        }
        let mut groups: HashMap<(u32, [u8; 16]), (u32, u16)> = HashMap::new();
        let mut out = Vec::new();
        for r in &self.recs {
            let mut key = r.1;
            for k in 0..16 {
                key[k] &= !value_mask[k];
            }
            match groups.get(&(r.0, key)) {
                Some(&(other, ov)) => {
                    if other != r.2 && ov != r.3 {
                        out.push((other, r.2));
                        if out.len() >= cap {
                            break;
                        }
                    }
                }
                None => {
                    groups.insert((r.0, key), (r.2, r.3));
                }
            }
        }
        out
    }
}
