//! C17 — starting-hand score equals the Chen formula for every two-card hand.
//!
//! Oracle in integer half-points (no floats), round half up. Whether a pocket
//! pair counts as a "connector" is not fixed by the statement, so is_connector is
//! asserted for non-pairs only; high_card of a pair only has to be one of the two.

use crate::common::{Ctx, Input, Rep};
use crate::drive::{self, St};
use crate::model;
use crate::props::bad_replay;
use ckc_rs::cards::two::Two;
use ckc_rs::cards::HandValidator;
use ckc_rs::{PokerCard, Shifty};
use std::collections::BTreeMap;

#[derive(Default)]
pub struct X {
    arms: BTreeMap<String, u64>,
    scores: std::collections::BTreeSet<i32>,
}

fn check_pair(st: &mut St<X>, a: u8, b: u8) {
    let (wa, wb) = (model::word(a), model::word(b));
    st.flight("Two helpers", &[wa, wb]);
    let t = Two::new(wa, wb);
    let (ra, rb) = (model::rank_of(a), model::rank_of(b));
    let pair = ra == rb;
    let suited = model::suit_of(a) == model::suit_of(b);
    let gap = model::chen_gap(ra, rb);
    let want = model::chen(a, b);
    let inp = || Input::Idx(vec![a, b]);
    let got = t.chen_formula() as i32;
    st.rep.evaluations += 8;
    st.x.scores.insert(got);
    let hi = ra.max(rb);
    *st
        .x
        .arms
        .entry(format!(
            "{}gap{}{}{}",
            if pair { "pair " } else { "" },
            if gap >= 4 { "4+".to_string() } else { gap.to_string() },
            if suited { " suited" } else { " offsuit" },
            if hi < 10 { " below-queen" } else { " queen-or-better" }
        ))
        .or_insert(0) += 1;
    if got != want {
        st.rep.violation("the score equals Bill Chen's formula", "Two::chen_formula", inp(), format!("{}", want), format!("{}", got));
    }
    if t.get_gap() != gap {
        st.rep.violation("gap = number of ranks strictly between the two cards", "Two::get_gap", inp(), format!("{}", gap), format!("{}", t.get_gap()));
    }
    if t.is_pocket_pair() != pair {
        st.rep.violation("pocket pair <=> same rank", "Two::is_pocket_pair", inp(), format!("{}", pair), format!("{}", t.is_pocket_pair()));
    }
    if t.is_suited() != suited {
        st.rep.violation("suited <=> same suit", "Two::is_suited", inp(), format!("{}", suited), format!("{}", t.is_suited()));
    }
    let adjacent = !pair && gap == 0;
    if !pair && t.is_connector() != adjacent {
        st.rep.violation("connector <=> adjacent ranks (non-pairs)", "Two::is_connector", inp(), format!("{}", adjacent), format!("{}", t.is_connector()));
    }
    if t.is_suited_connector() != (suited && adjacent) {
        st.rep.violation("suited connector <=> suited and adjacent ranks", "Two::is_suited_connector", inp(), format!("{}", suited && adjacent), format!("{}", t.is_suited_connector()));
    }
    let hc = t.high_card();
    let ok_high = if pair { hc == wa || hc == wb } else { hc == if ra > rb { wa } else { wb } };
    if !ok_high {
        st.rep.violation("high card is the higher-ranked of the two", "Two::high_card", inp(), format!("{:#010x}", if ra >= rb { wa } else { wb }), format!("{:#010x}", hc));
    }
    // the score ignores slot order and suit shifting
    let swapped = Two::new(wb, wa).chen_formula() as i32;
    let shifted = t.shift_suit().chen_formula() as i32;
    st.rep.evaluations += 2;
    if swapped != got {
        st.rep.violation("the score ignores slot order", "Two::chen_formula", inp(), format!("{}", got), format!("{} with the slots swapped", swapped));
    }
    if shifted != got {
        st.rep.violation("the score ignores suit shifting", "Two::chen_formula", inp(), format!("{}", got), format!("{} after shift_suit", shifted));
    }
    // every way of making the same two-card hand scores the same: the array conversions, the hand's own sort,
    // the text parser (both renderings) and the bit-set conversion (which may order the two cards as it likes)
    {
        let seps: &[char] = &[' ', '\t', '\n', '\u{0B}', '\u{0C}', '\r', '\u{85}', '\u{A0}', '\u{1680}', '\u{2000}', '\u{2003}', '\u{2009}', '\u{200A}', '\u{2028}', '\u{2029}', '\u{202F}', '\u{205F}', '\u{3000}'];
        // the text parser splits on Unicode white space: the same hand written with each separator scores the same
        for (k, &sep) in seps.iter().enumerate() {
            let t: &'static str = Box::leak(format!("{}{}{}", model::card_name(a), sep, model::card_name(b)).into_boxed_str());
            st.rep.evaluations += 1;
            match Two::try_from(t) {
                Ok(h) => {
                    let s = h.chen_formula() as i32;
                    if s != want {
                        st.rep.violation("the score equals Bill Chen's formula (hand made through another constructor)", &format!("Two::try_from(&str) with separator U+{:04X} then chen_formula", sep as u32), inp(), format!("{}", want), format!("{} for the hand {:08X?}", s, h.to_arr()));
                    }
                }
                Err(_) => st.rep.violation("the score equals Bill Chen's formula (hand made through another constructor)", &format!("Two::try_from(&str) with separator U+{:04X}", sep as u32), inp(), format!("a hand scoring {}", want), "no hand".into()),
            }
            let _ = k;
        }
        let txt = |glyph: bool| -> &'static str {
            let one = |i: u8| {
                if glyph {
                    format!("{}{}", model::RANK_CHARS[model::rank_of(i) as usize], ['♠', '♥', '♦', '♣'][model::suit_of(i) as usize])
                } else {
                    model::card_name(i)
                }
            };
            let t = format!("{} {}", one(a), one(b));
            Box::leak(t.into_boxed_str())
        };
        let made: [(&str, Option<Two>); 8] = [
            ("Two::from([u32; 2])", Some(Two::from([wa, wb]))),
            ("Two::from(&[u32; 2])", Some(Two::from(&[wa, wb]))),
            ("Two::sort", Some(t.sort())),
            ("Two::new(b, a) then set_first(a), set_second(b)", {
                let mut h = Two::new(wb, wa);
                h.set_first(wa);
                h.set_second(wb);
                Some(h)
            }),
            ("Two::default() then set_second(b), set_first(a)", {
                let mut h = Two::default();
                h.set_second(wb);
                h.set_first(wa);
                Some(h)
            }),
            ("Two::try_from(&str) letters", Two::try_from(txt(false)).ok()),
            ("Two::try_from(&str) glyphs", Two::try_from(txt(true)).ok()),
            ("Two::try_from(BinaryCard)", Two::try_from(model::bit(a) | model::bit(b)).ok()),
        ];
        st.rep.evaluations += 8;
        for (how, hand) in made {
            match hand {
                Some(h) => {
                    let s = h.chen_formula() as i32;
                    if s != want {
                        st.rep.violation("the score equals Bill Chen's formula (hand made through another constructor)", &format!("{} then chen_formula", how), inp(), format!("{}", want), format!("{} for the hand {:08X?}", s, h.to_arr()));
                    }
                }
                None => st.rep.violation("the score equals Bill Chen's formula (hand made through another constructor)", how, inp(), format!("a hand scoring {}", want), "no hand".into()),
            }
        }
    }
    // ... and keeps ignoring it however often the hand is shifted (a shifted hand is a hand like any other:
    // its score, suitedness and gap must still be those of the two ranks), in both slot orders
    for start in [t, Two::new(wb, wa)] {
        let mut cur = start;
        for n in 1..=5u32 {
            cur = cur.shift_suit();
            st.rep.evaluations += 3;
            let s = cur.chen_formula() as i32;
            if s != want {
                st.rep.violation("the score ignores suit shifting (repeated shifts)", "Two::chen_formula after shift_suit chain", inp(), format!("{}", want), format!("{} after {} shifts", s, n));
                break;
            }
            if cur.is_suited() != suited || cur.get_gap() != gap {
                st.rep.violation(
                    "suitedness and gap ignore suit shifting (repeated shifts)",
                    "Two::is_suited / get_gap after shift_suit chain",
                    inp(),
                    format!("suited {} gap {}", suited, gap),
                    format!("suited {} gap {} after {} shifts", cur.is_suited(), cur.get_gap(), n),
                );
                break;
            }
        }
    }
}

fn check_card_points(rep: &mut Rep, i: u8) {
    let p = model::word(i).get_chen_points();
    rep.evaluations += 1;
    let want_half = model::chen_card_half_points(model::rank_of(i));
    if p * 2.0 != want_half as f32 {
        rep.violation(
            "high-card points: ace 10, king 8, queen 7, jack 6, otherwise half the pip value",
            "PokerCard::get_chen_points",
            Input::Idx(vec![i]),
            format!("{}", want_half as f32 / 2.0),
            format!("{}", p),
        );
    }
}

pub fn run(ctx: &Ctx) -> Rep {
    let mut rep = Rep::new();
    // oracle self-check against the published examples of the formula
    {
        let c = |r: u8, s: u8| model::idx(r, s);
        let ok = model::chen(c(12, 0), c(12, 1)) == 20   // AA
            && model::chen(c(12, 0), c(11, 0)) == 12      // AKs
            && model::chen(c(12, 0), c(11, 1)) == 10      // AKo
            && model::chen(c(8, 0), c(8, 1)) == 10        // TT
            && model::chen(c(3, 1), c(5, 1)) == 6         // 7h5h (Chen's worked example: 3.5 - 1 + 1 + 2 = 5.5 -> 6)
            && model::chen(c(0, 2), c(0, 3)) == 5         // 22
            && model::chen(c(5, 0), c(0, 1)) == -1;       // 72o: 3.5 - 5 = -1.5 -> -1
        rep.self_check("model: Chen formula reproduces the published examples (AA 20, AKs 12, AKo 10, TT 10, 7-5s 6, 22 5, 72o -1)", ok);
    }
    let mut st = St { rep: Rep::new(), x: X::default(), cur: [0; 8], cur_len: 0, cur_what: "" };
    let step = if ctx.smoke() { 5 } else { 1 };
    let r = drive::guard(|| {
        for a in (0..52u8).step_by(step) {
            for b in 0..52u8 {
                if a != b {
                    check_pair(&mut st, a, b);
                    st.rep.distinct += 1;
                }
            }
        }
    });
    if let Err(msg) = r {
        let w = st.cur[..st.cur_len].to_vec();
        st.rep.violation("panic", "Two helpers", Input::Words(w), "normal return".into(), msg);
    }
    for i in 0..52u8 {
        check_card_points(&mut st.rep, i);
    }
    // ---- every length-2 call history: the score of `cur` right after scoring `prev` -------------------
    // (a score must not depend on what was scored before; 2,652 x 2,652 sequences, single-threaded so
    // that nothing else calls into the crate between the two calls of a sequence)
    {
        let mut pairs: Vec<(u8, u8)> = Vec::new();
        for a in (0..52u8).step_by(step) {
            for b in 0..52u8 {
                if a != b {
                    pairs.push((a, b));
                }
            }
        }
        let hands: Vec<Two> = pairs.iter().map(|&(a, b)| Two::new(model::word(a), model::word(b))).collect();
        let want: Vec<i32> = pairs.iter().map(|&(a, b)| model::chen(a, b)).collect();
        let mut seqs = 0u64;
        let r = drive::guard(|| {
            for (pi, prev) in hands.iter().enumerate() {
                for (ci, cur) in hands.iter().enumerate() {
                    let _ = prev.chen_formula();
                    let got = cur.chen_formula() as i32;
                    seqs += 1;
                    if got != want[ci] {
                        st.rep.violation(
                            "the score does not depend on what was scored before",
                            "Two::chen_formula after Two::chen_formula",
                            Input::Idx(vec![pairs[pi].0, pairs[pi].1, pairs[ci].0, pairs[ci].1]),
                            format!("{} for {} {}", want[ci], model::card_name(pairs[ci].0), model::card_name(pairs[ci].1)),
                            format!("{} right after scoring {} {}", got, model::card_name(pairs[pi].0), model::card_name(pairs[pi].1)),
                        );
                    }
                }
            }
        });
        if let Err(msg) = r {
            st.rep.violation("panic", "Two::chen_formula", Input::None, "normal return".into(), msg);
        }
        st.rep.evaluations += seqs * 2;
        st.rep.add("length_2_call_histories(prev, cur)", seqs);
    }
    for (k, v) in &st.x.arms {
        st.rep.add(&format!("arm[{}]", k), *v);
    }
    st.rep.add("distinct_scores_seen", st.x.scores.len() as u64);
    st.rep.note("scores_seen", format!("{:?}", st.x.scores));
    for (a, b) in [(0u8, 13u8), (0, 1), (0, 14), (17, 19), (45, 51), (5, 31)] {
        st.rep.sample(format!("{} {} -> chen {} / oracle {}", model::card_name(a), model::card_name(b), Two::new(model::word(a), model::word(b)).chen_formula(), model::chen(a, b)));
    }
    let arms = st.x.arms.len() as u64;
    rep.merge(st.rep);
    if !ctx.smoke() {
        rep.floor("ordered pairs of distinct cards", rep.distinct, 2652);
        rep.floor("formula arms exercised", arms, 18);
        rep.exhaustive = Some(true);
    }
    rep.rule = "all 52 x 51 ordered pairs of distinct cards (distinct = pairs) through chen_formula and the six helpers, plus slot swap and suit shift; all 52 cards for the per-card points; every ordered pair of hands as a two-call history (7,033,104 sequences); \
                oracle in integer half-points"
        .to_string();
    rep
}

pub fn replay(_ctx: &Ctx, inp: &Input, _clause: &str) -> Rep {
    let mut rep = Rep::new();
    let mut st = St { rep: Rep::new(), x: X::default(), cur: [0; 8], cur_len: 0, cur_what: "" };
    let r = drive::guard(|| match inp {
        Input::Idx(v) if v.len() == 2 && v[0] < 52 && v[1] < 52 && v[0] != v[1] => check_pair(&mut st, v[0], v[1]),
        Input::Idx(v) if v.len() == 1 && v[0] < 52 => check_card_points(&mut st.rep, v[0]),
        Input::Idx(v) if v.len() == 4 && v.iter().all(|&i| i < 52) && v[0] != v[1] && v[2] != v[3] => {
            let _ = Two::new(model::word(v[0]), model::word(v[1])).chen_formula();
            let got = Two::new(model::word(v[2]), model::word(v[3])).chen_formula() as i32;
            let want = model::chen(v[2], v[3]);
            if got != want {
                st.rep.violation("the score does not depend on what was scored before", "Two::chen_formula after Two::chen_formula", inp.clone(), format!("{}", want), format!("{}", got));
            }
        }
        _ => bad_replay(&mut st.rep, "C17 wants idx: two distinct cards, or one card"),
    });
    if let Err(msg) = r {
        st.rep.violation("panic", "Two helpers", inp.clone(), "normal return".into(), msg);
    }
    st.rep.distinct = 1;
    rep.merge(st.rep);
    rep
}
