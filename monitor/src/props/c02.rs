//! C02 — six- and seven-card value is the best five-card hand they contain.
//!
//! Refuted by: a 6- or 7-subset of the deck and a slot order for which a
//! ranking entry point returns something other than the rule-based ordinal of
//! the best poker hand contained in those cards.

use crate::common::{Ctx, Input, Rep};
use crate::drive::{self, merge_states, par_run, par_subsets, permuted, selected, slot_subsets, Rng, St};
use crate::model::{self, Model};
use crate::props::{bad_replay, words_of};
use ckc_rs::cards::seven::Seven;
use ckc_rs::cards::six::Six;
use ckc_rs::cards::HandRanker;

pub struct X {
    cat6: [u64; 9],
    cat7: [u64; 9],
    decisive6: [u64; 6],
    decisive7: [u64; 21],
    tie_hands: u64,
    orders: u64,
    oracle_xcheck: u64,
}

fn mk() -> X {
    X { cat6: [0; 9], cat7: [0; 9], decisive6: [0; 6], decisive7: [0; 21], tie_hands: 0, orders: 0, oracle_xcheck: 0 }
}

const E6: [&str; 4] = [
    "Six::hand_rank_value_and_hand.0",
    "Six::hand_rank_value",
    "Six::hand_rank().value",
    "Six::hand_rank_value_validated",
];
const E7: [&str; 4] = [
    "Seven::hand_rank_value_and_hand.0",
    "Seven::hand_rank_value",
    "Seven::hand_rank().value",
    "Seven::hand_rank_value_validated",
];

fn describe(m: &Model, o: u16) -> String {
    if o == 0 || o as usize > m.distinct_keys {
        return format!("{}", o);
    }
    let k = m.key_of_ordinal[o as usize];
    format!("{} ({} / {})", o, Model::category_name_of_key(k), Model::class_name_of_key(k))
}

#[inline]
fn fail<X>(st: &mut St<X>, m: &Model, entry: &str, c: &[u8], expect: u16, got: u16) {
    st.rep.violation(
        "value == best five-card hand contained",
        entry,
        Input::Idx(c.to_vec()),
        describe(m, expect),
        describe(m, got),
    );
}

/// one six-slot arrangement; `all` = every entry point, else only the primary one
#[inline]
pub fn check6<Y>(st: &mut St<Y>, m: &Model, c: &[u8; 6], expect: u16, all: bool) {
    let w = words_of(c);
    st.flight("Six ranking", &w);
    let h = Six::from(w);
    let v = h.hand_rank_value_and_hand().0;
    st.rep.evaluations += 1;
    if v != expect {
        fail(st, m, E6[0], c, expect, v);
    }
    if all {
        let got = [h.hand_rank_value(), h.hand_rank().value, h.hand_rank_value_validated()];
        st.rep.evaluations += 3;
        for k in 0..3 {
            if got[k] != expect {
                fail(st, m, E6[k + 1], c, expect, got[k]);
            }
        }
    }
}

#[inline]
pub fn check7<Y>(st: &mut St<Y>, m: &Model, c: &[u8; 7], expect: u16, all: bool) {
    let w = words_of(c);
    st.flight("Seven ranking", &w);
    let h = Seven::from(w);
    let v = h.hand_rank_value_and_hand().0;
    st.rep.evaluations += 1;
    if v != expect {
        fail(st, m, E7[0], c, expect, v);
    }
    if all {
        let got = [h.hand_rank_value(), h.hand_rank().value, h.hand_rank_value_validated()];
        st.rep.evaluations += 3;
        for k in 0..3 {
            if got[k] != expect {
                fail(st, m, E7[k + 1], c, expect, got[k]);
            }
        }
    }
}

/// Rank `prev` and then `cur` through each entry point in turn; `cur` must get its own value.
fn twin_probe7<Y>(st: &mut St<Y>, m: &Model, prev: &[u8; 7], cur: &[u8; 7], expect: u16) {
    history_probe7(st, m, prev, cur, expect, "a suit-swapped twin")
}

fn history_probe7<Y>(st: &mut St<Y>, m: &Model, prev: &[u8; 7], cur: &[u8; 7], expect: u16, what: &str) {
    let (p, c) = (Seven::from(words_of(prev)), Seven::from(words_of(cur)));
    st.flight("Seven ranking after a twin", &words_of(cur));
    let got = [
        { let _ = p.hand_rank_value(); c.hand_rank_value() },
        { let _ = p.hand_rank_value_and_hand(); c.hand_rank_value_and_hand().0 },
        { let _ = p.hand_rank(); c.hand_rank().value },
        { let _ = p.hand_rank_value_validated(); c.hand_rank_value_validated() },
    ];
    st.rep.evaluations += 8;
    st.rep.add("twin_history_probes", 1);
    const E: [&str; 4] = ["Seven::hand_rank_value", "Seven::hand_rank_value_and_hand.0", "Seven::hand_rank().value", "Seven::hand_rank_value_validated"];
    for k in 0..4 {
        if got[k] != expect {
            let mut both = prev.to_vec();
            both.extend_from_slice(cur);
            st.rep.violation(
                "the value does not depend on which hand was ranked before",
                &format!("{} after ranking {}", E[k], what),
                Input::Idx(both),
                describe(m, expect),
                format!("{} right after ranking {}", describe(m, got[k]), model::hand_name(prev)),
            );
        }
    }
}

fn twin_probe6<Y>(st: &mut St<Y>, m: &Model, prev: &[u8; 6], cur: &[u8; 6], expect: u16) {
    history_probe6(st, m, prev, cur, expect, "a suit-swapped twin")
}

fn history_probe6<Y>(st: &mut St<Y>, m: &Model, prev: &[u8; 6], cur: &[u8; 6], expect: u16, what: &str) {
    let (p, c) = (Six::from(words_of(prev)), Six::from(words_of(cur)));
    st.flight("Six ranking after a twin", &words_of(cur));
    let got = [
        { let _ = p.hand_rank_value(); c.hand_rank_value() },
        { let _ = p.hand_rank_value_and_hand(); c.hand_rank_value_and_hand().0 },
        { let _ = p.hand_rank(); c.hand_rank().value },
        { let _ = p.hand_rank_value_validated(); c.hand_rank_value_validated() },
    ];
    st.rep.evaluations += 8;
    st.rep.add("twin_history_probes", 1);
    const E: [&str; 4] = ["Six::hand_rank_value", "Six::hand_rank_value_and_hand.0", "Six::hand_rank().value", "Six::hand_rank_value_validated"];
    for k in 0..4 {
        if got[k] != expect {
            let mut both = prev.to_vec();
            both.extend_from_slice(cur);
            st.rep.violation(
                "the value does not depend on which hand was ranked before",
                &format!("{} after ranking {}", E[k], what),
                Input::Idx(both),
                describe(m, expect),
                format!("{} right after ranking {}", describe(m, got[k]), model::hand_name(prev)),
            );
        }
    }
}

/// Which of the harness's own five-slot rows attain the best value (oracle only).
fn best_rows(m: &Model, c: &[u8], rows: &[Vec<u8>]) -> (u16, Vec<usize>) {
    let mut best = u16::MAX;
    let mut at = Vec::new();
    for (ri, r) in rows.iter().enumerate() {
        let h = [c[r[0] as usize], c[r[1] as usize], c[r[2] as usize], c[r[3] as usize], c[r[4] as usize]];
        let o = m.ord5(&h);
        if o < best {
            best = o;
            at.clear();
            at.push(ri);
        } else if o == best {
            at.push(ri);
        }
    }
    (best, at)
}

pub fn run(ctx: &Ctx) -> Rep {
    let m = Model::build();
    let mut rep = Rep::new();
    if let Err(e) = m.self_check() {
        rep.self_check(&e, false);
        return rep;
    }
    rep.self_check("model: 7462 classes, category populations, endpoints", true);
    let seed = ctx.seed;
    let rows6 = slot_subsets(6, 5);
    let rows7 = slot_subsets(7, 5);
    let thorough = ctx.thorough();
    let unit_stride = if ctx.smoke() { 331 } else { 1 };

    // sampling rates (one in n) by tier
    let all_entries_6 = ctx.pick(1, 8, 1);
    let all_entries_7 = ctx.pick(1, 16, 4);
    let perm_rate_6 = ctx.pick(1, 8, 1);
    let perm_rate_7 = ctx.pick(1, 8, 1);
    let perms_each_6 = ctx.pick(1, 1, 8);
    let perms_each_7 = ctx.pick(1, 1, 6);
    let xcheck_6 = ctx.pick(1, 16, 1);
    let xcheck_7 = ctx.pick(1, 128, 8);
    let twin_rate_6 = ctx.pick(1, 1, 1);
    let twin_rate_7 = ctx.pick(1, 8, 1);
    let rows_rate_6 = ctx.pick(1, 16, 2);
    let rows_rate_7 = ctx.pick(1, 64, 8);

    let perms6: Vec<[u8; 8]> = (0..drive::factorial(6)).map(|k| drive::nth_permutation(6, k)).collect();
    let perms7: Vec<[u8; 8]> = (0..drive::factorial(7)).map(|k| drive::nth_permutation(7, k)).collect();
    // ---- A: all six-card subsets -------------------------------------------
    // the checked leg of the quick tier works on a seeded quarter of the hands (ranking has no arithmetic that
    // differs between the profiles today; the leg is there to catch a debug assertion or an overflow that a change adds)
    let leg_div: u64 = if ctx.leg == "checked" && !ctx.thorough() && !ctx.smoke() { 4 } else { 1 };
    let st6 = par_subsets::<6, X, _, _>(ctx, unit_stride, mk, |st, c, u| {
        if !selected(c, seed, 0xC4EC, leg_div) {
            return;
        }
        let expect = m.ord_best(c);
        st.rep.distinct += 1;
        st.x.cat6[model::key_cat(m.key_of_ordinal[expect as usize]) as usize] += 1;
        if selected(c, seed, 0x61, xcheck_6) {
            // oracle cross-check: rule-based == definitional (min over 5-subsets)
            st.x.oracle_xcheck += 1;
            if m.ord_best_by_subsets(c) != expect {
                st.rep.self_check(&format!("rule-based vs min-over-subsets oracle disagree on {}", model::hand_name(c)), false);
            }
        }
        check6(st, &m, c, expect, selected(c, seed, 0x62, all_entries_6));
        if selected(c, seed, 0x63, perm_rate_6) {
            let mut rng = Rng::new(seed, drive::hand_code(c) ^ 0x6363);
            for _ in 0..perms_each_6 {
                let p = permuted(c, &mut rng);
                check6(st, &m, &p, expect, false);
                st.x.orders += 1;
            }
        }
        if drive::max_suit_count(c) == 6 && !ctx.smoke() {
            for (k, p) in perms6.iter().enumerate() {
                let a = [c[p[0] as usize], c[p[1] as usize], c[p[2] as usize], c[p[3] as usize], c[p[4] as usize], c[p[5] as usize]];
                check6(st, &m, &a, expect, k % 16 == 0);
            }
            st.x.orders += perms6.len() as u64;
            st.rep.add("single_suit_hands_ranked_in_every_slot_order", 1);
        }
        if expect <= 166 && !ctx.smoke() {
            let mut rng = Rng::new(seed, drive::hand_code(c) ^ 0x6565);
            for k in 0..32 {
                let p = permuted(c, &mut rng);
                check6(st, &m, &p, expect, k < 4);
                st.x.orders += 1;
            }
        }
        if drive::max_suit_count(c) >= 5 && selected(c, seed, 0x66, twin_rate_6) {
            for t in drive::suit_swap_twins(c) {
                let tw: [u8; 6] = t.try_into().unwrap();
                twin_probe6(st, &m, &tw, c, expect);
            }
        }
        if selected(c, seed, 0x64, rows_rate_6) {
            let (_, at) = best_rows(&m, c, &rows6);
            if at.len() == 1 {
                st.x.decisive6[at[0]] += 1;
            } else {
                st.x.tie_hands += 1;
            }
        }
        if st.rep.want_sample() && st.rep.distinct % 1_000_003 == 1 {
            let v = Six::from(words_of(c)).hand_rank_value();
            st.rep.sample(format!("six {} -> crate {} / oracle {}", model::hand_name(c), v, describe(&m, expect)));
        }
        let _ = u;
    });
    let (r6, x6) = merge_states(st6);
    let n6 = r6.distinct;
    rep.merge(r6);

    // ---- B: all seven-card subsets -----------------------------------------
    let st7 = par_subsets::<7, X, _, _>(ctx, unit_stride, mk, |st, c, _u| {
        if !selected(c, seed, 0xC4EC, leg_div) {
            return;
        }
        let expect = m.ord_best(c);
        st.rep.distinct += 1;
        st.x.cat7[model::key_cat(m.key_of_ordinal[expect as usize]) as usize] += 1;
        if selected(c, seed, 0x71, xcheck_7) {
            st.x.oracle_xcheck += 1;
            if m.ord_best_by_subsets(c) != expect {
                st.rep.self_check(&format!("rule-based vs min-over-subsets oracle disagree on {}", model::hand_name(c)), false);
            }
        }
        check7(st, &m, c, expect, selected(c, seed, 0x72, all_entries_7));
        if selected(c, seed, 0x73, perm_rate_7) {
            let mut rng = Rng::new(seed, drive::hand_code(c) ^ 0x7373);
            for _ in 0..perms_each_7 {
                let p = permuted(c, &mut rng);
                check7(st, &m, &p, expect, false);
                st.x.orders += 1;
            }
        }
        // the 6,864 seven-card hands of a single suit in all 5,040 slot orders (every 16th through all four entry
        // points): a flush path with an ordering precondition is only ever wrong on these, in a handful of orders
        if drive::max_suit_count(c) == 7 && !ctx.smoke() {
            for (k, p) in perms7.iter().enumerate() {
                let a = [c[p[0] as usize], c[p[1] as usize], c[p[2] as usize], c[p[3] as usize], c[p[4] as usize], c[p[5] as usize], c[p[6] as usize]];
                check7(st, &m, &a, expect, k % 16 == 0);
            }
            st.x.orders += perms7.len() as u64;
            st.rep.add("single_suit_hands_ranked_in_every_slot_order", 1);
        }
        // rare categories (straight flush, quads: 266,432 hands) get 32 extra seeded slot orders each: an
        // order-dependent shortcut taken only for such hands is then met by every one of them
        if expect <= 322 && !ctx.smoke() {
            // (full houses, 3.47 M hands, get 16 orders; straight flushes and quads 32)
            let mut rng = Rng::new(seed, drive::hand_code(c) ^ 0x7575);
            for k in 0..(if expect <= 166 { 32 } else { 16 }) {
                let p = permuted(c, &mut rng);
                check7(st, &m, &p, expect, k < 4);
                st.x.orders += 1;
            }
        }
        // call-history probe: the same hand ranked right after each of its suit-swapped twins, through every
        // entry point (a value must not depend on what was ranked before); hands with five or more cards of a
        // suit (twins share the suit histogram, so only there can a twin differ in value), a seeded share of them in the quick tier
        if drive::max_suit_count(c) >= 5 && selected(c, seed, 0x76, twin_rate_7) {
            for t in drive::suit_swap_twins(c) {
                let tw: [u8; 7] = t.try_into().unwrap();
                twin_probe7(st, &m, &tw, c, expect);
            }
        }
        if selected(c, seed, 0x74, rows_rate_7) {
            let (_, at) = best_rows(&m, c, &rows7);
            if at.len() == 1 {
                st.x.decisive7[at[0]] += 1;
            } else {
                st.x.tie_hands += 1;
            }
        }
        if st.rep.want_sample() && st.rep.distinct % 5_000_011 == 1 {
            let v = Seven::from(words_of(c)).hand_rank_value();
            st.rep.sample(format!("seven {} -> crate {} / oracle {}", model::hand_name(c), v, describe(&m, expect)));
        }
    });
    let (r7, x7) = merge_states(st7);
    let n7 = r7.distinct;
    rep.merge(r7);

    // ---- C: row-targeting set ------------------------------------------------
    // For every class and every slot row, a hand whose best five-card sub-hand is
    // attained by exactly one five-slot selection, arranged so that this selection
    // is exactly that row. A wrong index in any single row of a slot table is
    // therefore hit by (up to) 7462 hands, whatever the seed.
    let classes: Vec<usize> = (1..=m.distinct_keys).filter(|o| !ctx.smoke() || o % 97 == 0).collect();
    let stc = par_run(ctx, classes.len(), mk, |st, ci| {
        let o = classes[ci];
        let base = m.representative[o];
        let mut rng = Rng::new(seed, 0xC02_0000 + o as u64);
        for n in [6usize, 7] {
            let rows = if n == 6 { &rows6 } else { &rows7 };
            // draw extra cards until the best five-card sub-hand is unique
            let mut cards: Vec<u8> = Vec::new();
            let mut found: Option<Vec<usize>> = None;
            for _try in 0..64 {
                cards = base.to_vec();
                while cards.len() < n {
                    let x = rng.below(52) as u8;
                    if !cards.contains(&x) {
                        cards.push(x);
                    }
                }
                let (_, at) = best_rows(&m, &cards, rows);
                if at.len() == 1 {
                    found = Some(rows[at[0]].iter().map(|&s| s as usize).collect());
                    break;
                }
            }
            let Some(best_slots) = found else {
                st.rep.add("row_targets_skipped_no_unique_best", 1);
                continue;
            };
            let best_cards: Vec<u8> = best_slots.iter().map(|&s| cards[s]).collect();
            let other_cards: Vec<u8> = (0..n).filter(|s| !best_slots.contains(s)).map(|s| cards[s]).collect();
            let expect = m.ord_best(&cards);
            for (ri, row) in rows.iter().enumerate() {
                // the five decisive cards (seeded order) into the row's slots, the rest into the other slots
                let mut bc = best_cards.clone();
                rng.shuffle(&mut bc);
                let mut arr = vec![model::BLANK; n];
                for (k, &s) in row.iter().enumerate() {
                    arr[s as usize] = bc[k];
                }
                let mut oi = 0;
                for s in 0..n {
                    if arr[s] == model::BLANK {
                        arr[s] = other_cards[oi];
                        oi += 1;
                    }
                }
                if n == 6 {
                    let a: [u8; 6] = arr.clone().try_into().unwrap();
                    check6(st, &m, &a, expect, false);
                    st.x.decisive6[ri] += 1;
                } else {
                    let a: [u8; 7] = arr.clone().try_into().unwrap();
                    check7(st, &m, &a, expect, false);
                    st.x.decisive7[ri] += 1;
                }
                st.rep.add("row_target_hands", 1);
            }
        }
    });
    let (rc, xc) = merge_states(stc);
    let mut rc = rc;
    rc.distinct = 0; // arrangements of hands already counted as subsets above
    rep.merge(rc);

    // ---- D: every slot order of a class-covering set ---------------------------------------------
    // For every one of the 7462 classes, one six-card and one seven-card hand containing it (its
    // representative plus seeded extra cards) in ALL 720 / 5040 slot orders: closes the slot-order
    // dimension on a set of hands that covers every class as best or near-best hand.
    let std_ = par_run(ctx, classes.len(), mk, |st, ci| {
        let o = classes[ci];
        let base = m.representative[o];
        let mut rng = Rng::new(seed, 0xC02_8000 + o as u64);
        let mut cards: Vec<u8> = base.to_vec();
        while cards.len() < 7 {
            let x = rng.below(52) as u8;
            if !cards.contains(&x) {
                cards.push(x);
            }
        }
        let c7: [u8; 7] = cards.clone().try_into().unwrap();
        let c6: [u8; 6] = cards[..6].to_vec().try_into().unwrap();
        let e7 = m.ord_best(&c7);
        let e6 = m.ord_best(&c6);
        if !ctx.smoke() || o % 970 == 0 {
            for p in &perms6 {
                let a = [c6[p[0] as usize], c6[p[1] as usize], c6[p[2] as usize], c6[p[3] as usize], c6[p[4] as usize], c6[p[5] as usize]];
                check6(st, &m, &a, e6, false);
            }
            for p in &perms7 {
                let a = [c7[p[0] as usize], c7[p[1] as usize], c7[p[2] as usize], c7[p[3] as usize], c7[p[4] as usize], c7[p[5] as usize], c7[p[6] as usize]];
                check7(st, &m, &a, e7, false);
            }
            st.rep.add("class_hands_ranked_in_every_slot_order", 2);
            st.x.orders += (perms6.len() + perms7.len()) as u64;
        }
    });
    let (rd, xd) = merge_states(std_);
    let mut rd = rd;
    rd.distinct = 0;
    rep.merge(rd);

    // ---- E: hidden-state trace (only when the built crate owns writable statics) -----------------------
    // Single-threaded: every six- and seven-card hand is ranked through each entry point that leaves
    // something behind in the crate's statics, the cell it leaves is recorded, and hands that leave the
    // same key behind with different values become two-call histories that are actually executed and
    // compared with the oracle (the state trace only proposes candidates; see src/statewatch.rs).
    if let (Some(w), false) = (&ctx.statics, ctx.smoke()) {
        use crate::statewatch::Trace;
        let mut st = St { rep: Rep::new(), x: mk(), cur: [0; 8], cur_len: 0, cur_what: "" };
        let mut scratch = (Vec::new(), Vec::new());
        for n in [6usize, 7] {
            // entry points that leave their trace in the same cell share the cache: tracing one of them is enough
            let mut traced_cells: Vec<u32> = Vec::new();
            for e in [1usize, 0, 2, 3] {
                let rank = |c: &[u8]| -> u16 {
                    let wd: Vec<u32> = c.iter().map(|&i| model::word(i)).collect();
                    if c.len() == 6 {
                        let h = Six::from([wd[0], wd[1], wd[2], wd[3], wd[4], wd[5]]);
                        match e { 0 => h.hand_rank_value_and_hand().0, 1 => h.hand_rank_value(), 2 => h.hand_rank().value, _ => h.hand_rank_value_validated() }
                    } else {
                        let h = Seven::from([wd[0], wd[1], wd[2], wd[3], wd[4], wd[5], wd[6]]);
                        match e { 0 => h.hand_rank_value_and_hand().0, 1 => h.hand_rank_value(), 2 => h.hand_rank().value, _ => h.hand_rank_value_validated() }
                    }
                };
                // does this entry point leave state at all? (a few hundred hands)
                let mut probe = Trace::new();
                let mut k = 0u32;
                if n == 6 {
                    drive::for_each_subset::<6>(|c, id| { if id % 200_003 == 0 { probe.observe(w, &mut scratch, id, 0, || rank(c)); k += 1; } });
                } else {
                    drive::for_each_subset::<7>(|c, id| { if id % 1_300_021 == 0 { probe.observe(w, &mut scratch, id, 0, || rank(c)); k += 1; } });
                }
                let ename = if n == 6 { E6[e] } else { E7[e] };
                st.rep.add(&format!("state_trace.{}.calls_that_changed_crate_statics(of {} probed)", ename, k), probe.recs.len() as u64);
                if probe.recs.is_empty() {
                    continue;
                }
                let cell_off = probe.recs[0].0;
                if traced_cells.contains(&cell_off) {
                    st.rep.add(&format!("state_trace.{}.shares_a_cell_with_a_traced_entry_point", ename), 1);
                    continue;
                }
                traced_cells.push(cell_off);
                let mut trace = Trace::new();
                if n == 6 {
                    drive::for_each_subset::<6>(|c, id| { let v = m.ord_best(c); trace.observe(w, &mut scratch, id, v, || rank(c)); });
                } else {
                    drive::for_each_subset::<7>(|c, id| { let v = m.ord_best(c); trace.observe(w, &mut scratch, id, v, || rank(c)); });
                }
                st.rep.evaluations += trace.recs.len() as u64;
                let cands = trace.collision_candidates(4096);
                st.rep.add(&format!("state_trace.{}.cells_recorded", ename), trace.recs.len() as u64);
                st.rep.add(&format!("state_trace.{}.collision_candidates", ename), cands.len() as u64);
                drop(trace);
                for (a, b) in cands {
                    for (p, c) in [(a, b), (b, a)] {
                        if n == 6 {
                            let (ph, ch) = (drive::nth_subset::<6>(p as u64), drive::nth_subset::<6>(c as u64));
                            history_probe6(&mut st, &m, &ph, &ch, m.ord_best(&ch), "a hand that left the same key in the crate's static state");
                        } else {
                            let (ph, ch) = (drive::nth_subset::<7>(p as u64), drive::nth_subset::<7>(c as u64));
                            history_probe7(&mut st, &m, &ph, &ch, m.ord_best(&ch), "a hand that left the same key in the crate's static state");
                        }
                    }
                }
            }
        }
        st.rep.note("crate_statics_watched", w.names.join(", "));
        st.rep.distinct = 0;
        rep.merge(st.rep);
    }

    let mut acc = mk();
    for x in x6.into_iter().chain(x7).chain(xc).chain(xd) {
        for k in 0..9 {
            acc.cat6[k] += x.cat6[k];
            acc.cat7[k] += x.cat7[k];
        }
        for k in 0..6 {
            acc.decisive6[k] += x.decisive6[k];
        }
        for k in 0..21 {
            acc.decisive7[k] += x.decisive7[k];
        }
        acc.tie_hands += x.tie_hands;
        acc.orders += x.orders;
        acc.oracle_xcheck += x.oracle_xcheck;
    }
    const CATS: [&str; 9] = ["HighCard", "Pair", "TwoPair", "ThreeOfAKind", "Straight", "Flush", "FullHouse", "FourOfAKind", "StraightFlush"];
    for k in 0..9 {
        rep.add(&format!("six.best.{}", CATS[k]), acc.cat6[k]);
        rep.add(&format!("seven.best.{}", CATS[k]), acc.cat7[k]);
    }
    rep.add("six_card_subsets", n6);
    rep.add("seven_card_subsets", n7);
    rep.add("extra_seeded_slot_orders", acc.orders);
    rep.add("oracle_cross_checks(rule-based == min over 5-subsets)", acc.oracle_xcheck);
    rep.add("hands_with_tied_best_rows(sampled)", acc.tie_hands);
    rep.add("min.six_row_decisive", *acc.decisive6.iter().min().unwrap());
    rep.add("min.seven_row_decisive", *acc.decisive7.iter().min().unwrap());
    rep.note("six_rows_decisive_counts", format!("{:?}", acc.decisive6));
    rep.note("seven_rows_decisive_counts", format!("{:?}", acc.decisive7));
    if !ctx.smoke() {
        rep.floor("six_card_subsets", n6, if leg_div == 1 { 20_358_520 } else { 20_358_520 / leg_div / 2 });
        rep.floor("seven_card_subsets", n7, if leg_div == 1 { 133_784_560 } else { 133_784_560 / leg_div / 2 });
        rep.floor("every six-slot row decisive", *acc.decisive6.iter().min().unwrap(), 1000);
        rep.floor("every seven-slot row decisive", *acc.decisive7.iter().min().unwrap(), 1000);
        rep.exhaustive = Some(leg_div == 1);
    }
    rep.rule = format!(
        "every 6-subset and every 7-subset of the deck in canonical slot order (enumerated once each = distinct) through hand_rank_value_and_hand; \
         the other three entry points on a seeded 1-in-{}/1-in-{} selection; {} seeded slot order(s) for 1-in-{} six-card and {} for 1-in-{} seven-card hands; \
         plus the row-targeting set (every class x every five-slot row with a uniquely best sub-hand placed in that row) and, for every class, one six- and one seven-card hand in all 720 / 5040 slot orders. \
         32 extra seeded orders for every hand whose best is a straight flush or quads and 16 for every seven-card full house; every hand with five or more cards of a suit (a seeded 1-in-8 of the seven-card ones in quick) ranked right after each of its suit-swapped twins through all four entry points. Oracle = direct rule-based evaluation, cross-checked against min over 5-subsets. thorough={}",
        all_entries_6, all_entries_7, perms_each_6, perm_rate_6, perms_each_7, perm_rate_7, thorough
    );
    rep
}

pub fn replay(_ctx: &Ctx, inp: &Input, _clause: &str) -> Rep {
    let mut rep = Rep::new();
    let m = Model::build();
    let ok = |v: &Vec<u8>| {
        let mut s = v.clone();
        s.sort_unstable();
        v.iter().all(|&i| i < 52) && !s.windows(2).any(|w| w[0] == w[1])
    };
    let mut st = St { rep: Rep::new(), x: (), cur: [0; 8], cur_len: 0, cur_what: "" };
    match inp {
        Input::Idx(v) if v.len() == 6 && ok(v) => {
            let c: [u8; 6] = v.clone().try_into().unwrap();
            let e = m.ord_best_by_subsets(&c);
            if let Err(msg) = drive::guard(|| check6(&mut st, &m, &c, e, true)) {
                st.rep.violation("panic", "Six ranking", inp.clone(), "normal return".into(), msg);
            }
        }
        Input::Idx(v) if v.len() == 7 && ok(v) => {
            let c: [u8; 7] = v.clone().try_into().unwrap();
            let e = m.ord_best_by_subsets(&c);
            if let Err(msg) = drive::guard(|| check7(&mut st, &m, &c, e, true)) {
                st.rep.violation("panic", "Seven ranking", inp.clone(), "normal return".into(), msg);
            }
        }
        Input::Idx(v) if v.len() == 12 && ok(&v[..6].to_vec()) && ok(&v[6..].to_vec()) => {
            let p: [u8; 6] = v[..6].to_vec().try_into().unwrap();
            let c: [u8; 6] = v[6..].to_vec().try_into().unwrap();
            let e = m.ord_best_by_subsets(&c);
            if let Err(msg) = drive::guard(|| twin_probe6(&mut st, &m, &p, &c, e)) {
                st.rep.violation("panic", "Six ranking", inp.clone(), "normal return".into(), msg);
            }
        }
        Input::Idx(v) if v.len() == 14 && ok(&v[..7].to_vec()) && ok(&v[7..].to_vec()) => {
            let p: [u8; 7] = v[..7].to_vec().try_into().unwrap();
            let c: [u8; 7] = v[7..].to_vec().try_into().unwrap();
            let e = m.ord_best_by_subsets(&c);
            if let Err(msg) = drive::guard(|| twin_probe7(&mut st, &m, &p, &c, e)) {
                st.rep.violation("panic", "Seven ranking", inp.clone(), "normal return".into(), msg);
            }
        }
        _ => bad_replay(&mut rep, "C02 wants idx: six or seven distinct deck indices (or two such hands: previous, current)"),
    }
    st.rep.distinct = 1;
    rep.merge(st.rep);
    rep
}
