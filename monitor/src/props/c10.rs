//! C10 — card words follow the documented bit layout; exactly 52 words are cards.

use crate::common::{Ctx, Input, Rep};
use crate::drive::{self, merge_states, par_run, St};
use crate::model;
use crate::props::named::NAMED_WORDS;
use crate::props::{bad_replay, model_card_index};
use ckc_rs::deck::POKER_DECK;
use ckc_rs::{CKCNumber, CardNumber, CardRank, CardSuit, PokerCard};

#[derive(Default)]
pub struct X {
    passed: u64,
    swept: u64,
}

fn mk() -> X {
    X::default()
}

/// the rank enumeration, each member with the rank number its name states (None = the blank member)
const RANKS: [(CardRank, Option<u8>, &str); 14] = [
    (CardRank::ACE, Some(12), "ACE"),
    (CardRank::KING, Some(11), "KING"),
    (CardRank::QUEEN, Some(10), "QUEEN"),
    (CardRank::JACK, Some(9), "JACK"),
    (CardRank::TEN, Some(8), "TEN"),
    (CardRank::NINE, Some(7), "NINE"),
    (CardRank::EIGHT, Some(6), "EIGHT"),
    (CardRank::SEVEN, Some(5), "SEVEN"),
    (CardRank::SIX, Some(4), "SIX"),
    (CardRank::FIVE, Some(3), "FIVE"),
    (CardRank::FOUR, Some(2), "FOUR"),
    (CardRank::THREE, Some(1), "THREE"),
    (CardRank::TWO, Some(0), "TWO"),
    (CardRank::BLANK, None, "BLANK"),
];
const SUITS: [(CardSuit, Option<u8>, &str); 5] = [
    (CardSuit::SPADES, Some(0), "SPADES"),
    (CardSuit::HEARTS, Some(1), "HEARTS"),
    (CardSuit::DIAMONDS, Some(2), "DIAMONDS"),
    (CardSuit::CLUBS, Some(3), "CLUBS"),
    (CardSuit::BLANK, None, "BLANK"),
];

fn rank_member(r: u8) -> CardRank {
    RANKS.iter().find(|x| x.1 == Some(r)).unwrap().0
}
fn suit_member(s: u8) -> CardSuit {
    SUITS.iter().find(|x| x.1 == Some(s)).unwrap().0
}

/// accessor clauses for one of the 52 cards
fn check_card(rep: &mut Rep, i: u8) {
    let w: u32 = model::word(i);
    let r = model::rank_of(i);
    let s = model::suit_of(i);
    let inp = || Input::Idx(vec![i]);
    let mut cmp = |clause: &str, entry: &str, want: String, got: String| {
        rep.evaluations += 1;
        if want != got {
            rep.violation(clause, entry, inp(), want, got);
        }
    };
    cmp("rank accessor reads the rank of the card", "get_card_rank", format!("{:?}", rank_member(r)), format!("{:?}", w.get_card_rank()));
    cmp("suit accessor reads the suit of the card", "get_card_suit", format!("{:?}", suit_member(s)), format!("{:?}", w.get_card_suit()));
    cmp("rank bit is 1 << rank number", "get_rank_bit", format!("{:#x}", 1u32 << r), format!("{:#x}", w.get_rank_bit()));
    cmp("rank flag is the rank bit in bits 16-28", "get_rank_flag", format!("{:#x}", 1u32 << (16 + r as u32)), format!("{:#x}", w.get_rank_flag()));
    cmp("prime accessor reads the rank's prime", "get_rank_prime", format!("{}", model::PRIMES[r as usize]), format!("{}", w.get_rank_prime()));
    cmp("suit bit: clubs lowest, spades highest", "get_suit_bit", format!("{:#x}", 8u32 >> s), format!("{:#x}", w.get_suit_bit()));
    cmp("suit flag is the suit bit in bits 12-15", "get_suit_flag", format!("{:#x}", 0x8000u32 >> s), format!("{:#x}", w.get_suit_flag()));
    cmp("suit signature is the suit bit in bits 12-15", "CardSuit::binary_signature", format!("{:#x}", 0x8000u32 >> s), format!("{:#x}", suit_member(s).binary_signature()));
    cmp("a real card is not blank", "is_blank", "false".into(), format!("{}", w.is_blank()));
    // characters are checked semantically: they must be a symbol of that rank / suit
    let rc = w.get_rank_char();
    cmp("rank character is a symbol of the card's rank", "get_rank_char", format!("a symbol of rank {}", model::RANK_SINGULAR[r as usize]), match model::rank_of_symbol(rc) {
        Some(x) if x == r => format!("a symbol of rank {}", model::RANK_SINGULAR[r as usize]),
        _ => format!("{:?}", rc),
    });
    for (entry, ch) in [("get_suit_char", w.get_suit_char()), ("get_suit_letter", w.get_suit_letter())] {
        cmp("suit character is a symbol of the card's suit", entry, format!("a symbol of suit {}", s), match model::suit_of_symbol(ch) {
            Some(x) if x == s => format!("a symbol of suit {}", s),
            _ => format!("{:?}", ch),
        });
    }
    cmp("as_u32 is the word", "as_u32", format!("{:#x}", w), format!("{:#x}", w.as_u32()));
}

#[inline]
fn check_filter(st: &mut St<X>, w: u32) {
    let want = if model_card_index(w).is_some() { w } else { 0 };
    let a = CardNumber::filter(w);
    let b = <CKCNumber as PokerCard>::filter(w);
    st.rep.evaluations += 2;
    st.x.swept += 1;
    if a != 0 {
        st.x.passed += 1;
    }
    if a != want {
        st.rep.violation("the card filter passes exactly the 52 cards and maps every other word to blank", "CardNumber::filter", Input::Words(vec![w]), format!("{:#010x}", want), format!("{:#010x}", a));
    }
    if b != want {
        st.rep.violation("the card filter passes exactly the 52 cards and maps every other word to blank", "PokerCard::filter", Input::Words(vec![w]), format!("{:#010x}", want), format!("{:#010x}", b));
    }
}

fn fixed_clauses(rep: &mut Rep) {
    // named constants
    for &(name, r, s, w) in NAMED_WORDS.iter() {
        rep.evaluations += 1;
        rep.distinct += 1;
        let want = model::word(model::idx(r, s));
        if w != want {
            rep.violation("each named constant is the documented layout word of its card", &format!("CardNumber::{}", name), Input::Idx(vec![model::idx(r, s)]), format!("{:#010x}", want), format!("{:#010x}", w));
        }
    }
    rep.evaluations += 1;
    if CardNumber::BLANK != 0 {
        rep.violation("blank is the zero word", "CardNumber::BLANK", Input::Words(vec![0]), "0".into(), format!("{}", CardNumber::BLANK));
    }
    // the deck
    let deck = POKER_DECK.arr();
    for i in 0..52u8 {
        rep.evaluations += 1;
        if deck[i as usize] != model::word(i) {
            rep.violation("the deck produces the layout word of each card", "POKER_DECK.arr()", Input::Idx(vec![i]), format!("{:#010x}", model::word(i)), format!("{:#010x}", deck[i as usize]));
        }
    }
    // construction from every rank / suit member pair, including the blank members
    for &(rk, rn, rname) in RANKS.iter() {
        for &(su, sn, sname) in SUITS.iter() {
            let got = CKCNumber::create(rk, su);
            rep.evaluations += 1;
            rep.distinct += 1;
            let want = match (rn, sn) {
                (Some(r), Some(s)) => model::word(model::idx(r, s)),
                _ => 0,
            };
            if got != want {
                rep.violation(
                    "construction from a rank and a suit produces the layout word (blank if either member is blank)",
                    "CKCNumber::create",
                    Input::Ops(vec![rname.to_string(), sname.to_string()]),
                    format!("{:#010x}", want),
                    format!("{:#010x}", got),
                );
            }
        }
    }
    rep.evaluations += 1;
    if !0u32.is_blank() {
        rep.violation("the zero word is blank", "is_blank", Input::Words(vec![0]), "true".into(), "false".into());
    }
    for i in 0..52u8 {
        check_card(rep, i);
    }
}

pub fn run(ctx: &Ctx) -> Rep {
    let mut rep = Rep::new();
    {
        let ws = model::words52();
        let mut ok = true;
        for i in 0..52u8 {
            ok &= model_card_index(ws[i as usize]) == Some(i);
        }
        let mut sorted = ws.to_vec();
        sorted.sort_unstable();
        sorted.dedup();
        ok &= sorted.len() == 52;
        rep.self_check("model: 52 distinct layout words, O(1) membership test agrees with the list", ok);
    }
    fixed_clauses(&mut rep);
    rep.sample(format!("CardNumber::ACE_SPADES = {:#010x}, layout word {:#010x}", CardNumber::ACE_SPADES, model::word(0)));
    rep.sample(format!("create(CardRank::TWO, CardSuit::CLUBS) = {:#010x}, layout word {:#010x}", CKCNumber::create(CardRank::TWO, CardSuit::CLUBS), model::word(51)));

    // ---- all 2^32 words through the filter ----------------------------------------
    let blocks: Vec<u32> = if ctx.smoke() { vec![0, 0x1000, 0x0800, 0x0001, 0xFFFF] } else { (0..65536u32).collect() };
    let s = par_run(ctx, blocks.len(), mk, |st, bi| {
        let hi = blocks[bi] << 16;
        for lo in 0..=0xFFFFu32 {
            let w = hi | lo;
            st.cur[0] = w;
            st.cur_len = 1;
            st.cur_what = "filter";
            check_filter(st, w);
        }
        st.rep.distinct += 65536;
    });
    let (r, xs) = merge_states(s);
    rep.merge(r);

    // ---- two-call histories: a card right after a word, a word right after a card -----------------------
    // The filter must be a function of its argument alone. For every word w of the selected blocks and
    // every card c the calls run as  w, c1, w, c2, ... w, c52  with every result checked, so both
    // (w then c) and (c then w) are adjacent. thorough: all 2^32 words x 52 cards in the fast leg (4.5e11 calls,
    // ~6.5 min), every 8th block in the checked leg; quick: a seeded 1-in-64 of the blocks (1-in-512 checked).
    let cards = model::words52();
    // (escalated, i.e. the crate owns static state: every 8th block - shared state makes each call ~50x slower)
    let hist_stride: u32 = if ctx.escalate && !ctx.smoke() {
        if ctx.leg == "checked" { 64 } else { 8 }
    } else if ctx.leg == "checked" {
        ctx.pick(1, 512, 8) as u32
    } else {
        ctx.pick(1, 64, 1) as u32
    };
    // words are selected one by one through a seeded hash, not by block: the words that matter to a lossy cache
    // (a card's aliases) sit at fixed offsets from the 13 card blocks, so block-wise sampling would take or leave them together
    let hblocks: Vec<u32> = blocks.clone();
    let sh = par_run(ctx, hblocks.len(), mk, |st, bi| {
        let hi = hblocks[bi] << 16;
        let top = if ctx.smoke() { 0x3F } else { 0xFFFF };
        let mut hist_words = 0u64;
        for lo in 0..=top {
            let w = hi | lo;
            if hist_stride > 1 && !ctx.smoke() && drive::mix(w as u64 ^ ctx.seed.wrapping_mul(0x9E37_79B9_7F4A_7C15)) % hist_stride as u64 != 0 {
                continue;
            }
            let want_w = if model_card_index(w).is_some() { w } else { 0 };
            st.cur[0] = w;
            st.cur_len = 1;
            st.cur_what = "filter histories";
            hist_words += 1;
            for (ci, &c) in cards.iter().enumerate() {
                let a = CardNumber::filter(w);
                let b = CardNumber::filter(c);
                if a != want_w {
                    let prev = if ci == 0 { w } else { cards[ci - 1] };
                    st.rep.violation("the card filter gives the same answer whatever was filtered before", "CardNumber::filter after CardNumber::filter", Input::Words(vec![prev, w]), format!("{:#010x}", want_w), format!("{:#010x} right after filtering {:#010x}", a, prev));
                }
                if b != c {
                    st.rep.violation("the card filter gives the same answer whatever was filtered before", "CardNumber::filter after CardNumber::filter", Input::Words(vec![w, c]), format!("{:#010x}", c), format!("{:#010x} right after filtering {:#010x}", b, w));
                }
            }
            st.rep.evaluations += 104;
        }
        st.rep.add("two_call_filter_histories", hist_words * 104);
    });
    let (rh, _) = merge_states(sh);
    rep.merge(rh);
    let passed: u64 = xs.iter().map(|x| x.passed).sum();
    let swept: u64 = xs.iter().map(|x| x.swept).sum();
    rep.add("words_swept_through_the_filter", swept);
    rep.add("words_passed_by_the_filter", passed);
    rep.add("named_constants_checked", 52);
    rep.add("rank_suit_member_pairs_constructed", 70);
    rep.sample(format!("filter({:#010x}) = {:#010x} ; filter({:#010x}) = {:#010x}", model::word(17), CardNumber::filter(model::word(17)), model::word(17) ^ 0x40, CardNumber::filter(model::word(17) ^ 0x40)));
    if !ctx.smoke() {
        rep.floor("words swept", swept, 1 << 32);
        rep.floor("words passed by the filter", passed, 52);
        rep.exhaustive = Some(true);
    }
    rep.rule = "all 52 named constants, the 52 deck entries, all 14 x 5 rank/suit member pairs through create, 16 field/character accessors on each of the 52 cards, \
                and all 2^32 words through both filter entry points against an O(1) decode-and-rebuild membership test; two-call histories (word then card, card then word) for every card and a seeded (per-word hash) 1-in-64 of all 2^32 words (thorough: every word in the fast leg); distinct = words + constants + pairs"
        .to_string();
    rep
}

pub fn replay(_ctx: &Ctx, inp: &Input, _clause: &str) -> Rep {
    let mut rep = Rep::new();
    let mut st = St { rep: Rep::new(), x: mk(), cur: [0; 8], cur_len: 0, cur_what: "" };
    let r = drive::guard(|| match inp {
        Input::Words(v) if !v.is_empty() => {
            // in the recorded order (a two-word witness is a call history)
            for &w in v {
                check_filter(&mut st, w);
            }
        }
        Input::Idx(_) | Input::Ops(_) => fixed_clauses(&mut st.rep),
        _ => bad_replay(&mut st.rep, "C10 wants words, idx or ops"),
    });
    if let Err(msg) = r {
        st.rep.violation("panic", "layout accessors", inp.clone(), "normal return".into(), msg);
    }
    st.rep.distinct = st.rep.distinct.max(1);
    rep.merge(st.rep);
    rep
}
