//! C03 — the reported best hand is a sorted five-card witness drawn from the input.
//!
//! Refuted by: hand_rank_value_and_hand() returning (v, h) where, for 6/7
//! distinct real cards, h's five words are not pairwise distinct, or one is not
//! among the input words, or they are not strictly descending as integers, or
//! ranking h on its own does not give v; for a Five, h != the input (same slots).

use crate::common::{Ctx, Input, Rep};
use crate::drive::{self, factorial, merge_states, nth_permutation, par_subsets, permuted, selected, Rng, St};
use crate::model::{self, Model};
use crate::props::{bad_replay, words_of};
use ckc_rs::cards::five::Five;
use ckc_rs::cards::seven::Seven;
use ckc_rs::cards::six::Six;
use ckc_rs::cards::HandRanker;

pub struct X {
    reordered: u64,
    witness_is_prefix: u64,
    cat: [u64; 9],
    identity_orders: u64,
    wit_hash: u64, // xor-fold of witness hashes, a cheap fingerprint of the observed witnesses
}

fn mk() -> X {
    X { reordered: 0, witness_is_prefix: 0, cat: [0; 9], identity_orders: 0, wit_hash: 0 }
}

/// Check one reported (value, hand) against the input arrangement `c` (deck indices) / `w` (words).
#[inline]
fn check_witness(st: &mut St<X>, m: &Model, entry: &'static str, c: &[u8], w: &[u32], v: u16, h: Five) {
    let hw = h.to_arr();
    st.rep.evaluations += 1;
    let mut hidx = [0u8; 5];
    let mut pos = [usize::MAX; 5];
    for k in 0..5 {
        let mut found = usize::MAX;
        for j in 0..w.len() {
            if w[j] == hw[k] {
                found = j;
                break;
            }
        }
        if found == usize::MAX {
            st.rep.violation(
                "every reported card is taken from the input",
                entry,
                Input::Idx(c.to_vec()),
                "five of the input words".into(),
                format!("reported hand {:08X?} holds {:08X} which is not in the input", hw, hw[k]),
            );
            return;
        }
        pos[k] = found;
        hidx[k] = c[found];
    }
    for a in 0..5 {
        for b in (a + 1)..5 {
            if pos[a] == pos[b] {
                st.rep.violation(
                    "reported cards are five distinct cards",
                    entry,
                    Input::Idx(c.to_vec()),
                    "five distinct cards".into(),
                    format!("reported hand {} repeats a card", model::hand_name(&hidx)),
                );
                return;
            }
        }
    }
    if !(hw[0] > hw[1] && hw[1] > hw[2] && hw[2] > hw[3] && hw[3] > hw[4]) {
        st.rep.violation(
            "reported hand is in descending card order",
            entry,
            Input::Idx(c.to_vec()),
            "strictly descending words".into(),
            format!("reported hand {} = {:08X?}", model::hand_name(&hidx), hw),
        );
    }
    let again = Five::from(hw).hand_rank_value();
    st.rep.evaluations += 1;
    if again != v {
        st.rep.violation(
            "ranking the reported hand on its own gives the reported value",
            entry,
            Input::Idx(c.to_vec()),
            format!("{}", v),
            format!("reported hand {} ranks {} on its own", model::hand_name(&hidx), again),
        );
    }
    let by_rules = m.ord5(&hidx);
    if by_rules != v {
        st.rep.violation(
            "reported hand has the reported value under the rules of poker",
            entry,
            Input::Idx(c.to_vec()),
            format!("value {} belongs with a hand of that strength", v),
            format!("reported hand {} has strength ordinal {}", model::hand_name(&hidx), by_rules),
        );
    }
    // observations
    if pos.windows(2).any(|p| p[0] > p[1]) {
        st.x.reordered += 1;
    }
    if pos == [0, 1, 2, 3, 4] {
        st.x.witness_is_prefix += 1;
    }
    if (by_rules as usize) <= m.distinct_keys && by_rules > 0 {
        st.x.cat[model::key_cat(m.key_of_ordinal[by_rules as usize]) as usize] += 1;
    }
    st.x.wit_hash ^= drive::mix(drive::hash_words(&hw));
}

#[inline]
fn check6(st: &mut St<X>, m: &Model, c: &[u8; 6]) {
    let w = words_of(c);
    st.flight("Six::hand_rank_value_and_hand", &w);
    let (v, h) = Six::from(w).hand_rank_value_and_hand();
    check_witness(st, m, "Six::hand_rank_value_and_hand", c, &w, v, h);
}

#[inline]
fn check7(st: &mut St<X>, m: &Model, c: &[u8; 7]) {
    let w = words_of(c);
    st.flight("Seven::hand_rank_value_and_hand", &w);
    let (v, h) = Seven::from(w).hand_rank_value_and_hand();
    check_witness(st, m, "Seven::hand_rank_value_and_hand", c, &w, v, h);
}

#[inline]
fn check5_identity(st: &mut St<X>, c: &[u8; 5]) {
    let w = words_of(c);
    st.flight("Five::hand_rank_value_and_hand", &w);
    let (_, h) = Five::from(w).hand_rank_value_and_hand();
    st.rep.evaluations += 1;
    st.x.identity_orders += 1;
    if h.to_arr() != w {
        st.rep.violation(
            "for a five-card input the reported hand is the input unchanged",
            "Five::hand_rank_value_and_hand",
            Input::Idx(c.to_vec()),
            format!("{:08X?}", w),
            format!("{:08X?}", h.to_arr()),
        );
    }
}

pub fn run(ctx: &Ctx) -> Rep {
    let m = Model::build();
    let mut rep = Rep::new();
    if let Err(e) = m.self_check() {
        rep.self_check(&e, false);
        return rep;
    }
    rep.self_check("model: 7462 classes, category populations, endpoints", true);
    let seed = ctx.seed;
    let unit_stride = if ctx.smoke() { 331 } else { 1 };
    let perm_rate_6 = ctx.pick(1, 4, 1);
    let perm_rate_7 = ctx.pick(1, 8, 1);
    let perms_each = ctx.pick(1, 1, 4);
    let all_orders5 = ctx.thorough() || (ctx.leg != "checked" && !ctx.smoke());
    let perms5: Vec<[u8; 8]> = (0..factorial(5)).map(|k| nth_permutation(5, k)).collect();

    let s5 = par_subsets::<5, X, _, _>(ctx, unit_stride, mk, |st, c, _| {
        st.rep.distinct += 1;
        if all_orders5 {
            for p in &perms5 {
                let a = [c[p[0] as usize], c[p[1] as usize], c[p[2] as usize], c[p[3] as usize], c[p[4] as usize]];
                check5_identity(st, &a);
            }
        } else {
            check5_identity(st, c);
            let mut rng = Rng::new(seed, drive::hand_code(c) ^ 0x5353);
            let a = permuted(c, &mut rng);
            check5_identity(st, &a);
        }
    });
    let (r5, x5) = merge_states(s5);
    let n5 = r5.distinct;
    rep.merge(r5);

    let leg_div: u64 = if ctx.leg == "checked" && !ctx.thorough() && !ctx.smoke() { 4 } else { 1 };
    let s6 = par_subsets::<6, X, _, _>(ctx, unit_stride, mk, |st, c, _| {
        if !selected(c, seed, 0xC4EC, leg_div) {
            return;
        }
        st.rep.distinct += 1;
        check6(st, &m, c);
        if selected(c, seed, 0x36, perm_rate_6) {
            let mut rng = Rng::new(seed, drive::hand_code(c) ^ 0x3636);
            for _ in 0..perms_each {
                let p = permuted(c, &mut rng);
                check6(st, &m, &p);
            }
        }
        if st.rep.want_sample() && st.rep.distinct % 2_000_003 == 1 {
            let (v, h) = Six::from(words_of(c)).hand_rank_value_and_hand();
            st.rep.sample(format!("six {} -> value {} witness {:08X?}", model::hand_name(c), v, h.to_arr()));
        }
    });
    let (r6, x6) = merge_states(s6);
    let n6 = r6.distinct;
    rep.merge(r6);

    let s7 = par_subsets::<7, X, _, _>(ctx, unit_stride, mk, |st, c, _| {
        if !selected(c, seed, 0xC4EC, leg_div) {
            return;
        }
        st.rep.distinct += 1;
        check7(st, &m, c);
        if selected(c, seed, 0x37, perm_rate_7) {
            let mut rng = Rng::new(seed, drive::hand_code(c) ^ 0x3737);
            for _ in 0..perms_each {
                let p = permuted(c, &mut rng);
                check7(st, &m, &p);
            }
        }
        if st.rep.want_sample() && st.rep.distinct % 9_000_011 == 1 {
            let (v, h) = Seven::from(words_of(c)).hand_rank_value_and_hand();
            st.rep.sample(format!("seven {} -> value {} witness {:08X?}", model::hand_name(c), v, h.to_arr()));
        }
    });
    let (r7, x7) = merge_states(s7);
    let n7 = r7.distinct;
    rep.merge(r7);

    // ---- class-targeting set: every strength class as the best hand, in seeded slot orders ------
    // For each of the 7462 classes, its representative five cards plus seeded extra cards, in K seeded
    // slot orders per size: rare classes (e.g. the 188 six-card sets holding a royal flush) are then
    // observed out of canonical order whatever the seed, not only when the per-hand sampling picks them.
    let k_orders = ctx.pick(1, 8, 32) as usize;
    let classes: Vec<usize> = (1..=m.distinct_keys).filter(|o| !ctx.smoke() || o % 97 == 0).collect();
    let sc = crate::drive::par_run(ctx, classes.len(), mk, |st, ci| {
        let o = classes[ci];
        let base = m.representative[o];
        let mut rng = Rng::new(seed, 0xC03_0000 + o as u64);
        for _ in 0..k_orders {
            for n in [6usize, 7] {
                let mut cards: Vec<u8> = base.to_vec();
                while cards.len() < n {
                    let x = rng.below(52) as u8;
                    if !cards.contains(&x) {
                        cards.push(x);
                    }
                }
                rng.shuffle(&mut cards);
                if n == 6 {
                    let a: [u8; 6] = cards.clone().try_into().unwrap();
                    check6(st, &m, &a);
                } else {
                    let a: [u8; 7] = cards.clone().try_into().unwrap();
                    check7(st, &m, &a);
                }
                st.rep.add("class_target_hands", 1);
            }
        }
        // one six- and one seven-card hand per class in every slot order (every 8th class in the quick tier)
        if (all_orders5 || o % 8 == (seed % 8) as usize) && !ctx.smoke() {
            let mut cards: Vec<u8> = base.to_vec();
            while cards.len() < 7 {
                let x = rng.below(52) as u8;
                if !cards.contains(&x) {
                    cards.push(x);
                }
            }
            for k in 0..crate::drive::factorial(6) {
                let p = crate::drive::nth_permutation(6, k);
                let a = [cards[p[0] as usize], cards[p[1] as usize], cards[p[2] as usize], cards[p[3] as usize], cards[p[4] as usize], cards[p[5] as usize]];
                check6(st, &m, &a);
            }
            for k in 0..crate::drive::factorial(7) {
                let p = crate::drive::nth_permutation(7, k);
                let a = [cards[p[0] as usize], cards[p[1] as usize], cards[p[2] as usize], cards[p[3] as usize], cards[p[4] as usize], cards[p[5] as usize], cards[p[6] as usize]];
                check7(st, &m, &a);
            }
            st.rep.add("class_hands_checked_in_every_slot_order", 2);
        }
    });
    let (rc, xc) = merge_states(sc);
    rep.merge(rc);

    let mut acc = mk();
    for x in x5.into_iter().chain(x6).chain(x7).chain(xc) {
        acc.reordered += x.reordered;
        acc.witness_is_prefix += x.witness_is_prefix;
        acc.identity_orders += x.identity_orders;
        acc.wit_hash ^= x.wit_hash;
        for k in 0..9 {
            acc.cat[k] += x.cat[k];
        }
    }
    const CATS: [&str; 9] = ["HighCard", "Pair", "TwoPair", "ThreeOfAKind", "Straight", "Flush", "FullHouse", "FourOfAKind", "StraightFlush"];
    for k in 0..9 {
        rep.add(&format!("witness.{}", CATS[k]), acc.cat[k]);
    }
    rep.add("five_card_subsets(identity clause)", n5);
    rep.add("five_card_arrangements(identity clause)", acc.identity_orders);
    rep.add("six_card_subsets", n6);
    rep.add("seven_card_subsets", n7);
    rep.add("witnesses_not_in_input_slot_order(sort had to act)", acc.reordered);
    rep.add("witnesses_that_are_the_first_five_slots", acc.witness_is_prefix);
    rep.note("witness_fingerprint", format!("{:016x}", acc.wit_hash));
    if !ctx.smoke() {
        rep.floor("five_card_subsets", n5, 2_598_960);
        rep.floor("six_card_subsets", n6, if leg_div == 1 { 20_358_520 } else { 20_358_520 / leg_div / 2 });
        rep.floor("seven_card_subsets", n7, if leg_div == 1 { 133_784_560 } else { 133_784_560 / leg_div / 2 });
        rep.floor("witnesses the sort had to reorder", acc.reordered, 1000);
        rep.exhaustive = Some(leg_div == 1);
    }
    rep.rule = format!(
        "every 5-, 6- and 7-subset of the deck (enumerated once each = distinct). 6/7: canonical slot order plus {} seeded order(s) for 1-in-{} / 1-in-{} hands, \
         each witness checked for membership, distinctness, strict descending order, re-ranking through the crate and through the rules oracle; \
         5: identity clause in {}; plus every one of the 7462 classes as a 6- and a 7-card hand in {} seeded slot orders",
        perms_each, perm_rate_6, perm_rate_7,
        if all_orders5 { "all 120 slot orders" } else { "canonical + one seeded slot order" },
        k_orders
    );
    rep
}

pub fn replay(_ctx: &Ctx, inp: &Input, _clause: &str) -> Rep {
    let mut rep = Rep::new();
    let m = Model::build();
    let ok = |v: &Vec<u8>| {
        let mut s = v.clone();
        s.sort_unstable();
        v.iter().all(|&i| i < 52) && !s.windows(2).any(|w| w[0] == w[1])
    };
    let mut st = St { rep: Rep::new(), x: mk(), cur: [0; 8], cur_len: 0, cur_what: "" };
    let r = match inp {
        Input::Idx(v) if v.len() == 5 && ok(v) => {
            let c: [u8; 5] = v.clone().try_into().unwrap();
            drive::guard(|| check5_identity(&mut st, &c))
        }
        Input::Idx(v) if v.len() == 6 && ok(v) => {
            let c: [u8; 6] = v.clone().try_into().unwrap();
            drive::guard(|| check6(&mut st, &m, &c))
        }
        Input::Idx(v) if v.len() == 7 && ok(v) => {
            let c: [u8; 7] = v.clone().try_into().unwrap();
            drive::guard(|| check7(&mut st, &m, &c))
        }
        _ => {
            bad_replay(&mut rep, "C03 wants idx: 5, 6 or 7 distinct deck indices");
            Ok(())
        }
    };
    if let Err(msg) = r {
        st.rep.violation("panic", "hand_rank_value_and_hand", inp.clone(), "normal return".into(), msg);
    }
    st.rep.distinct = 1;
    rep.merge(st.rep);
    rep
}
