//! C18 — deck and published combination tables are complete and duplicate-free.
//!
//! An invariant-at-a-quiescent-point check on constant data: every entry of
//! every published table against the full set of combinations it should
//! enumerate. Row *order* of the tables is not asserted.

use crate::common::{Ctx, Input, Rep};
use crate::drive::{self, slot_subsets, Rng};
use crate::model;
use ckc_rs::cards::four::Four;
use ckc_rs::cards::seven::Seven;
use ckc_rs::cards::six::Six;
use ckc_rs::cards::two::Two;
use ckc_rs::deck::{Deck, POKER_DECK};
use std::collections::BTreeSet;

fn check_deck(rep: &mut Rep, seed: u64, n_seeded: u64) {
    let arr = POKER_DECK.arr();
    rep.evaluations += 1;
    if arr.len() != 52 || Deck::len() != 52 {
        rep.violation("the deck has 52 entries", "Deck::len", Input::None, "52".into(), format!("{} / {}", arr.len(), Deck::len()));
    }
    let mut seen = BTreeSet::new();
    for i in 0..arr.len().min(52) {
        rep.evaluations += 2;
        rep.distinct += 1;
        let want = model::word(i as u8);
        if arr[i] != want {
            rep.violation(
                "the deck lists spades, hearts, diamonds, clubs, each from ace down to deuce",
                "POKER_DECK.arr()",
                Input::U64s(vec![i as u64]),
                format!("{:#010x} ({})", want, model::card_name(i as u8)),
                format!("{:#010x}", arr[i]),
            );
        }
        if !seen.insert(arr[i]) {
            rep.violation("the deck lists each card exactly once", "POKER_DECK.arr()", Input::U64s(vec![i as u64]), "no repeats".into(), format!("{:#010x} repeated", arr[i]));
        }
        if Deck::get(i) != arr[i] {
            rep.violation("indexing the deck in range gives that entry", "Deck::get", Input::U64s(vec![i as u64]), format!("{:#010x}", arr[i]), format!("{:#010x}", Deck::get(i)));
        }
    }
    // at or past the end: every index class
    let mut idx: Vec<usize> = vec![52, 53, 54, 63, 64, 100, 255, 256, 1 << 16, (1 << 16) + 51, u32::MAX as usize, (u32::MAX as usize) + 1, (u32::MAX as usize) + 52, 1 << 63, usize::MAX - 52, usize::MAX - 1, usize::MAX];
    for b in 6..64 {
        idx.push(1usize << b);
        idx.push((1usize << b) | 3);
    }
    let mut rng = Rng::new(seed, 0xC18);
    for _ in 0..n_seeded {
        let bits = 6 + rng.below(59) as u32;
        let v = (rng.next() >> (64 - bits)) as usize;
        if v >= 52 {
            idx.push(v);
        }
    }
    // indexes that arithmetic on the index can wrap back into range: a few below usize::MAX, and every
    // index whose product with a small constant c is tiny modulo 2^64 (t * c^-1 for odd c, and the 2^k * odd
    // analogue) - where a reciprocal-multiply, a hash or a scaled offset computed from the index comes out
    // looking like an in-range slot although the index itself is astronomically large
    for k in 0..300usize {
        idx.push(usize::MAX - k);
        idx.push((1usize << 63) - 1 - k);
    }
    let inverse = |o: u64| {
        let mut x = o;
        for _ in 0..6 {
            x = x.wrapping_mul(2u64.wrapping_sub(o.wrapping_mul(x)));
        }
        x
    };
    let mut wrap = 0u64;
    for o in (3u64..1 << 16).step_by(2) {
        let inv = inverse(o);
        for t in 1u64..=48 {
            let v = t.wrapping_mul(inv) as usize;
            if v >= 52 {
                idx.push(v);
                wrap += 1;
            }
        }
    }
    for o in (1u64..1 << 11).step_by(2) {
        let inv = inverse(o);
        for k in 1u32..=8 {
            for t in 1u64..=8 {
                let low = t.wrapping_mul(inv) & (u64::MAX >> k);
                for j in [0u64, 1, (1 << k) - 1] {
                    let v = (low | (j << (64 - k))) as usize;
                    if v >= 52 {
                        idx.push(v);
                        wrap += 1;
                    }
                }
            }
        }
    }
    rep.add("deck_indexes_that_wrap_under_small_multipliers", wrap);
    // indexes built from repeated / cancelling bytes and words, as they are and with the low byte or the low
    // 16-bit word replaced by an in-range slot number: where a bounds test that folds or compares the index
    // word by word lets the high words cancel and only looks at the low one
    let mut structured = 0u64;
    for v in drive::field_structured_u64(seed) {
        for cand in [v, (v & !0xFF) | 0, (v & !0xFF) | 51, (v & !0xFFFF) | 0, (v & !0xFFFF) | 7, (v & !0xFFFF) | 51, (v & !0xFFFF_FFFF) | 13] {
            if cand as usize >= 52 && cand <= usize::MAX as u64 {
                idx.push(cand as usize);
                structured += 1;
            }
        }
    }
    rep.add("deck_indexes_from_field_structured_values", structured);
    // every index whose set bits fit in a 16-bit window
    let mut windowed = 0u64;
    drive::for_each_window_value(|v| {
        if v >= 52 && v <= usize::MAX as u64 {
            idx.push(v as usize);
            windowed += 1;
        }
    });
    rep.add("deck_indexes_within_a_16_bit_window", windowed);
    idx.sort_unstable();
    idx.dedup();
    for &i in &idx {
        rep.evaluations += 1;
        match drive::guard(|| Deck::get(i)) {
            Ok(0) => {}
            Ok(w) => rep.violation("indexing at or past the end of the deck gives blank", "Deck::get", Input::U64s(vec![i as u64]), "0".into(), format!("{:#010x}", w)),
            Err(m) => rep.violation("indexing at or past the end of the deck gives blank", "Deck::get", Input::U64s(vec![i as u64]), "0".into(), format!("panicked: {}", m)),
        }
    }
    // ---- two-call histories: an in-range read right after a past-the-end probe, and the reverse -----------
    // (Deck::get must be a function of its index alone; every probe index i is followed by the in-range
    // index that shares its low bits under every power-of-two truncation, and by a sample of other slots)
    let mut hist = 0u64;
    let step = (idx.len() / 40_000).max(1);
    for (n, &i) in idx.iter().enumerate() {
        let mut followers: Vec<usize> = Vec::new();
        for bits in [8u32, 16, 32] {
            let low = if bits >= usize::BITS { i } else { i & ((1usize << bits) - 1) };
            if low < 52 {
                followers.push(low);
            }
        }
        followers.push(i % 52);
        if n % step == 0 {
            followers.extend(0..52);
        }
        for &k in &followers {
            hist += 2;
            rep.evaluations += 4;
            let r = drive::guard(|| {
                let _ = Deck::get(i);
                let a = Deck::get(k);
                let _ = Deck::get(k);
                let b = Deck::get(i);
                (a, b)
            });
            match r {
                Ok((a, b)) => {
                    if a != model::word(k as u8) {
                        rep.violation("indexing the deck in range gives that entry (whatever was read before)", "Deck::get after Deck::get", Input::U64s(vec![i as u64, k as u64]), format!("{:#010x}", model::word(k as u8)), format!("{:#010x} right after Deck::get({})", a, i));
                    }
                    if b != 0 {
                        rep.violation("indexing at or past the end of the deck gives blank (whatever was read before)", "Deck::get after Deck::get", Input::U64s(vec![k as u64, i as u64]), "0".into(), format!("{:#010x} right after Deck::get({})", b, k));
                    }
                }
                Err(m) => rep.violation("panic", "Deck::get", Input::U64s(vec![i as u64, k as u64]), "normal return".into(), m),
            }
        }
    }
    rep.add("two_call_deck_histories", hist);
    rep.add("deck_indexes_at_or_past_the_end", idx.len() as u64);
    rep.distinct += idx.len() as u64;
}

/// expected set of (high card, low card) deck-index pairs: rank hi x rank lo, suited / offsuit / any
fn combos(hi: u8, lo: u8, suited: Option<bool>) -> BTreeSet<(u8, u8)> {
    let mut s = BTreeSet::new();
    for s1 in 0..4u8 {
        for s2 in 0..4u8 {
            if hi == lo && s1 >= s2 {
                continue; // pairs: each unordered combination once, higher suit first
            }
            if let Some(want) = suited {
                if (s1 == s2) != want {
                    continue;
                }
            }
            s.insert((model::idx(hi, s1), model::idx(lo, s2)));
        }
    }
    s
}

fn check_preset(rep: &mut Rep, name: &str, table: &[Two], want: BTreeSet<(u8, u8)>, count: usize) {
    rep.add(&format!("entries.{}", name), table.len() as u64);
    rep.evaluations += table.len() as u64;
    rep.distinct += table.len() as u64;
    let inp = || Input::Ops(vec![name.to_string()]);
    if table.len() != count || want.len() != count {
        rep.violation("the preset table holds exactly every combination of its description", &format!("Two::{}", name), inp(), format!("{} entries", count), format!("{} entries", table.len()));
    }
    let mut got: BTreeSet<(u8, u8)> = BTreeSet::new();
    for (k, t) in table.iter().enumerate() {
        let a = t.to_arr();
        let ia = model::index_of_word(a[0]);
        let ib = model::index_of_word(a[1]);
        let (Some(ia), Some(ib)) = (ia, ib) else {
            rep.violation("every preset entry holds two real cards", &format!("Two::{}[{}]", name, k), inp(), "two of the 52 card words".into(), format!("{:08X?}", a));
            continue;
        };
        // "higher card first": by rank; for a pair, the integer order of the words (spades > hearts > diamonds > clubs)
        let same_rank = model::rank_of(ia) == model::rank_of(ib);
        let first_higher = if !same_rank { model::rank_of(ia) > model::rank_of(ib) } else { a[0] > a[1] };
        // for two cards of one rank "higher" is not defined by the statement: not asserted
        if !first_higher && !same_rank {
            rep.violation("each preset entry lists the higher card first", &format!("Two::{}[{}]", name, k), inp(), "higher card first".into(), format!("{} {}", model::card_name(ia), model::card_name(ib)));
        }
        let key = if first_higher { (ia, ib) } else { (ib, ia) };
        if !got.insert(key) {
            rep.violation("the preset table has no duplicate entry", &format!("Two::{}[{}]", name, k), inp(), "each combination once".into(), format!("{} {} repeated", model::card_name(ia), model::card_name(ib)));
        }
    }
    if got != want {
        let missing: Vec<String> = want.difference(&got).map(|&(a, b)| format!("{} {}", model::card_name(a), model::card_name(b))).collect();
        let extra: Vec<String> = got.difference(&want).map(|&(a, b)| format!("{} {}", model::card_name(a), model::card_name(b))).collect();
        rep.violation(
            "the preset table holds exactly every combination of its description",
            &format!("Two::{}", name),
            inp(),
            format!("{} combinations", want.len()),
            format!("missing {:?}, unexpected {:?}", missing, extra),
        );
    }
}

fn check_slot_table(rep: &mut Rep, name: &str, rows: Vec<Vec<u8>>, n: usize, k: usize) {
    let want: BTreeSet<Vec<u8>> = slot_subsets(n, k).into_iter().collect();
    rep.add(&format!("rows.{}", name), rows.len() as u64);
    rep.add(&format!("combinations_expected.{}", name), want.len() as u64);
    rep.evaluations += rows.len() as u64;
    rep.distinct += rows.len() as u64;
    let inp = || Input::Ops(vec![name.to_string()]);
    let mut got = BTreeSet::new();
    for (ri, r) in rows.iter().enumerate() {
        if r.windows(2).any(|p| p[0] >= p[1]) {
            rep.violation("each row of a slot-index table is in increasing order", &format!("{}[{}]", name, ri), inp(), "strictly increasing".into(), format!("{:?}", r));
        }
        if r.iter().any(|&s| s as usize >= n) {
            rep.violation("each row of a slot-index table names slots of the hand", &format!("{}[{}]", name, ri), inp(), format!("slots below {}", n), format!("{:?}", r));
        }
        let mut sorted = r.clone();
        sorted.sort_unstable();
        if !got.insert(sorted) {
            rep.violation("a slot-index table lists every combination exactly once", &format!("{}[{}]", name, ri), inp(), "no repeated row".into(), format!("{:?} repeated", r));
        }
    }
    // "... in increasing order": the rows themselves are listed in increasing (lexicographic) order, which is
    // how all three published tables are written
    for (ri, pair) in rows.windows(2).enumerate() {
        if pair[0] >= pair[1] {
            rep.violation(
                "a slot-index table lists its combinations in increasing order",
                &format!("{}[{}..={}]", name, ri, ri + 1),
                inp(),
                "each row lexicographically greater than the one before".into(),
                format!("{:?} followed by {:?}", pair[0], pair[1]),
            );
        }
    }
    if got != want || rows.len() != want.len() {
        let missing: Vec<&Vec<u8>> = want.difference(&got).collect();
        rep.violation(
            "a slot-index table lists every combination exactly once",
            name,
            inp(),
            format!("all {} {}-of-{} combinations", want.len(), k, n),
            format!("{} rows, missing {:?}", rows.len(), missing),
        );
    }
}

fn all_checks(rep: &mut Rep, seed: u64, n_seeded: u64) {
    check_deck(rep, seed, n_seeded);
    let (a, k, q) = (12u8, 11u8, 10u8);
    check_preset(rep, "AA", &Two::AA, combos(a, a, None), 6);
    check_preset(rep, "AK", &Two::AK, combos(a, k, None), 16);
    check_preset(rep, "AKs", &Two::AKs, combos(a, k, Some(true)), 4);
    check_preset(rep, "AKo", &Two::AKo, combos(a, k, Some(false)), 12);
    check_preset(rep, "AQs", &Two::AQs, combos(a, q, Some(true)), 4);
    check_preset(rep, "AQo", &Two::AQo, combos(a, q, Some(false)), 12);
    // AKs u AKo = AK
    {
        let set = |t: &[Two]| t.iter().map(|x| x.to_arr()).collect::<BTreeSet<[u32; 2]>>();
        let mut u = set(&Two::AKs);
        u.extend(set(&Two::AKo));
        rep.evaluations += 1;
        if u != set(&Two::AK) {
            rep.violation("the 16 ace-kings split into the 4 suited and the 12 offsuit ones", "Two::AKs + Two::AKo vs Two::AK", Input::Ops(vec!["AK".into()]), "AKs u AKo == AK".into(), "differs".into());
        }
    }
    check_slot_table(rep, "Four::OMAHA_PERMUTATIONS", Four::OMAHA_PERMUTATIONS.iter().map(|r| r.to_vec()).collect(), 4, 2);
    check_slot_table(rep, "Six::FIVE_CARD_PERMUTATIONS", Six::FIVE_CARD_PERMUTATIONS.iter().map(|r| r.to_vec()).collect(), 6, 5);
    check_slot_table(rep, "Seven::FIVE_CARD_PERMUTATIONS", Seven::FIVE_CARD_PERMUTATIONS.iter().map(|r| r.to_vec()).collect(), 7, 5);
}

pub fn run(ctx: &Ctx) -> Rep {
    let mut rep = Rep::new();
    let n_seeded = ctx.pick(100, 1_000_000, 10_000_000);
    if let Err(msg) = drive::guard(|| all_checks(&mut rep, ctx.seed, n_seeded)) {
        rep.violation("panic", "published tables", Input::None, "normal return".into(), msg);
    }
    rep.sample(format!("POKER_DECK.arr()[0..3] = {:08X?} ; Deck::get(52) = {} ; Deck::get(usize::MAX) = {}", &POKER_DECK.arr()[0..3], Deck::get(52), Deck::get(usize::MAX)));
    rep.sample(format!("Two::AKs = {:08X?}", Two::AKs.iter().map(|t| t.to_arr()).collect::<Vec<_>>()));
    rep.sample(format!("Seven::FIVE_CARD_PERMUTATIONS[8..12] = {:?}", &Seven::FIVE_CARD_PERMUTATIONS[8..12]));
    rep.floor("table entries and deck slots checked", rep.distinct, 52 + 6 + 16 + 4 + 12 + 4 + 12 + 6 + 6 + 21);
    rep.exhaustive = Some(true);
    rep.rule = "every entry of the deck, of the six preset starting-hand tables and of the three slot-index tables against the full set of combinations each should enumerate \
                (built by the harness from ranks/suits and by its own k-subset enumeration); Deck::get on every index class at or past the end plus seeded indexes; \
                distinct = entries + indexes"
        .to_string();
    rep
}

pub fn replay(ctx: &Ctx, _inp: &Input, _clause: &str) -> Rep {
    // constant data: a replay is a re-run of the whole (cheap) check
    let mut rep = Rep::new();
    if let Err(msg) = drive::guard(|| all_checks(&mut rep, ctx.seed, 1000)) {
        rep.violation("panic", "published tables", Input::None, "normal return".into(), msg);
    }
    rep
}
