//! C12 — text parsing is total; a token is a card iff it starts with rank+suit symbols.

use crate::common::{Ctx, Input, Rep};
use crate::drive::{self, guard, merge_states, par_run, Rng, St};
use crate::model;
use crate::props::bad_replay;
use ckc_rs::cards::binary_card::BC64;
use ckc_rs::cards::five::Five;
use ckc_rs::cards::four::Four;
use ckc_rs::cards::seven::Seven;
use ckc_rs::cards::six::Six;
use ckc_rs::cards::three::Three;
use ckc_rs::cards::two::Two;
use ckc_rs::cards::HandValidator;
use ckc_rs::parse;
use ckc_rs::{CKCNumber, CardRank, CardSuit, PokerCard};

#[derive(Default)]
pub struct X {
    rank_symbols: u64,
    suit_symbols: u64,
    scalars: u64,
    tokens_card: u64,
    tokens_blank: u64,
    hand_fewer: [u64; 8],
    hand_exact: [u64; 8],
    hand_more: [u64; 8],
    longest: u64,
    texts: u64,
    panics: u64,
    scalar_texts: u64,
    hashes: std::collections::HashSet<u64>,
}

fn mk() -> X {
    X::default()
}

fn rank_num(r: CardRank) -> Option<u8> {
    match r {
        CardRank::ACE => Some(12),
        CardRank::KING => Some(11),
        CardRank::QUEEN => Some(10),
        CardRank::JACK => Some(9),
        CardRank::TEN => Some(8),
        CardRank::NINE => Some(7),
        CardRank::EIGHT => Some(6),
        CardRank::SEVEN => Some(5),
        CardRank::SIX => Some(4),
        CardRank::FIVE => Some(3),
        CardRank::FOUR => Some(2),
        CardRank::THREE => Some(1),
        CardRank::TWO => Some(0),
        CardRank::BLANK => None,
    }
}

fn suit_num(s: CardSuit) -> Option<u8> {
    match s {
        CardSuit::SPADES => Some(0),
        CardSuit::HEARTS => Some(1),
        CardSuit::DIAMONDS => Some(2),
        CardSuit::CLUBS => Some(3),
        CardSuit::BLANK => None,
    }
}

fn text_input(s: &str) -> Input {
    Input::Text(s.to_string())
}

#[cold]
#[inline(never)]
fn panicked(st: &mut St<X>, entry: &str, s: &str, msg: String) {
    st.x.panics += 1;
    st.rep.violation("parsing never panics on any string", entry, text_input(s), "normal return".into(), format!("panicked: {}", msg));
}

/// every scalar value through the two symbol tables
fn check_scalar(st: &mut St<X>, c: char) {
    st.x.scalars += 1;
    st.rep.evaluations += 2;
    match guard(|| CardRank::from_char(c)) {
        Ok(r) => {
            let got = rank_num(r);
            let want = model::rank_of_symbol(c);
            if got.is_some() {
                st.x.rank_symbols += 1;
            }
            if got != want {
                st.rep.violation("the rank symbols are exactly A K Q J T 0 9-2 in either case", "CardRank::from_char", text_input(&c.to_string()), format!("{:?}", want), format!("{:?}", r));
            }
        }
        Err(m) => panicked(st, "CardRank::from_char", &c.to_string(), m),
    }
    match guard(|| CardSuit::from_char(c)) {
        Ok(s) => {
            let got = suit_num(s);
            let want = model::suit_of_symbol(c);
            if got.is_some() {
                st.x.suit_symbols += 1;
            }
            if got != want {
                st.rep.violation("the suit symbols are exactly S H D C in either case and the filled or outline suit glyphs", "CardSuit::from_char", text_input(&c.to_string()), format!("{:?}", want), format!("{:?}", s));
            }
        }
        Err(m) => panicked(st, "CardSuit::from_char", &c.to_string(), m),
    }
}

/// one string as a single card token
fn check_token(st: &mut St<X>, s: &str) {
    let want_idx = model::parse_token(s);
    let want = model::word(want_idx);
    st.rep.evaluations += 2;
    if want_idx < 52 {
        st.x.tokens_card += 1;
    } else {
        st.x.tokens_blank += 1;
    }
    match guard(|| <CKCNumber as PokerCard>::from_index(s)) {
        Ok(got) => {
            if got != want {
                st.rep.violation(
                    "a token yields the card of its leading rank and suit symbols, anything else yields blank",
                    "CKCNumber::from_index",
                    text_input(s),
                    format!("{:#010x} ({})", want, model::card_name(want_idx)),
                    format!("{:#010x}", got),
                );
            }
        }
        Err(m) => panicked(st, "CKCNumber::from_index", s, m),
    }
    match guard(|| parse::get_rank_and_suit(s)) {
        Ok((r, su)) => {
            let both = rank_num(r).is_some() && suit_num(su).is_some();
            let ok = if want_idx < 52 {
                rank_num(r) == Some(model::rank_of(want_idx)) && suit_num(su) == Some(model::suit_of(want_idx))
            } else {
                !both
            };
            if !ok {
                st.rep.violation(
                    "a token yields the card of its leading rank and suit symbols, anything else yields blank",
                    "parse::get_rank_and_suit",
                    text_input(s),
                    model::card_name(want_idx),
                    format!("({:?}, {:?})", r, su),
                );
            }
        }
        Err(m) => panicked(st, "parse::get_rank_and_suit", s, m),
    }
}

macro_rules! hand_parser {
    ($st:expr, $s:expr, $stat:expr, $toks:expr, $n:expr, $ty:ty, $name:expr) => {{
        let n: usize = $n;
        $st.rep.evaluations += 1;
        match guard(|| <$ty>::try_from($stat)) {
            Ok(res) => {
                if $toks.len() < n {
                    $st.x.hand_fewer[n] += 1;
                    if res.is_ok() {
                        $st.rep.violation("parsing a hand fails when the text has fewer tokens than slots", $name, text_input($s), format!("Err ({} tokens < {} slots)", $toks.len(), n), format!("{:?}", res));
                    }
                } else if $toks.len() == n {
                    $st.x.hand_exact[n] += 1;
                    let want: Vec<u32> = $toks.iter().map(|t| model::word(model::parse_token(t))).collect();
                    match res {
                        Ok(h) => {
                            let got: Vec<u32> = h.iter().copied().collect();
                            if got != want {
                                $st.rep.violation("given exactly as many tokens as slots, the slots are filled in token order", $name, text_input($s), format!("{:08X?}", want), format!("{:08X?}", got));
                            }
                        }
                        Err(e) => {
                            $st.rep.violation("given exactly as many tokens as slots, the slots are filled in token order", $name, text_input($s), format!("Ok({:08X?})", want), format!("Err({:?})", e));
                        }
                    }
                } else {
                    $st.x.hand_more[n] += 1; // the statement is silent on extra tokens: only monitored for panics
                }
            }
            Err(m) => panicked($st, $name, $s, m),
        }
    }};
}

/// one string through every text entry point
fn check_text(st: &mut St<X>, s: &str) {
    st.x.texts += 1;
    st.x.longest = st.x.longest.max(s.len() as u64);
    check_token(st, s);
    let toks = model::tokens(s);
    // 'static copy for the TryFrom<&'static str> impls; reclaimed below (nothing retains it)
    let leaked: &'static mut str = Box::leak(s.to_string().into_boxed_str());
    let ptr: *mut str = leaked;
    let stat: &'static str = unsafe { &*ptr };
    hand_parser!(st, s, stat, toks, 2, Two, "Two::try_from(&str)");
    hand_parser!(st, s, stat, toks, 3, Three, "Three::try_from(&str)");
    hand_parser!(st, s, stat, toks, 4, Four, "Four::try_from(&str)");
    hand_parser!(st, s, stat, toks, 5, Five, "Five::try_from(&str)");
    hand_parser!(st, s, stat, toks, 6, Six, "Six::try_from(&str)");
    hand_parser!(st, s, stat, toks, 7, Seven, "Seven::try_from(&str)");
    unsafe {
        drop(Box::from_raw(ptr));
    }
    st.rep.evaluations += 2;
    match guard(|| parse::five_from_index(s)) {
        Ok(res) => {
            if toks.len() < 5 {
                if res.is_some() {
                    st.rep.violation("parsing a hand fails when the text has fewer tokens than slots", "parse::five_from_index", text_input(s), "None".into(), format!("{:08X?}", res));
                }
            } else if toks.len() == 5 {
                let want: Vec<u32> = toks.iter().map(|t| model::word(model::parse_token(t))).collect();
                if res.map(|a| a.to_vec()) != Some(want.clone()) {
                    st.rep.violation("given exactly as many tokens as slots, the slots are filled in token order", "parse::five_from_index", text_input(s), format!("{:08X?}", want), format!("{:08X?}", res));
                }
            }
        }
        Err(m) => panicked(st, "parse::five_from_index", s, m),
    }
    match guard(|| <u64 as BC64>::from_index(s)) {
        Ok(got) => {
            let mut want = 0u64;
            for t in &toks {
                want |= model::bit(model::parse_token(t));
            }
            if got != want {
                st.rep.violation("the bit-set parser folds in the card of every token", "BinaryCard::from_index", text_input(s), format!("{:#018x}", want), format!("{:#018x}", got));
            }
        }
        Err(m) => panicked(st, "BinaryCard::from_index", s, m),
    }
}

const SEPARATORS: [char; 12] = [' ', '\t', '\n', '\r', '\u{0B}', '\u{0C}', '\u{85}', '\u{A0}', '\u{1680}', '\u{2003}', '\u{2028}', '\u{3000}'];
const ODD: [char; 14] = ['\u{0}', 'é', '\u{FE0F}', '\u{301}', '😀', '\u{10FFFF}', '\u{200B}', '1', 'x', '_', '-', '♠', 'Ａ', '\u{7F}'];

fn alphabet() -> Vec<char> {
    let mut a: Vec<char> = "AaKkQqJjTt098765432".chars().collect();
    a.extend("SsHhDdCc♠♤♥♡♦♢♣♧".chars());
    a.extend(SEPARATORS.iter().copied().take(6));
    a.push('\u{A0}');
    a.push('\u{2003}');
    a.push('\u{3000}');
    a.extend(ODD.iter().copied());
    a
}

fn all_white_space() -> Vec<char> {
    (0..=0x10FFFFu32).filter_map(char::from_u32).filter(|c| c.is_whitespace()).collect()
}

fn random_token(rng: &mut Rng, alpha: &[char]) -> String {
    let mut t = String::new();
    match rng.below(6) {
        0 | 1 => {
            // a valid card token, sometimes with a tail
            t.push(model::RANK_CHARS[rng.below(13) as usize]);
            t.push("SHDCshdc♠♥♦♣♤♡♢♧".chars().nth(rng.below(16) as usize).unwrap());
            if rng.chance(1, 4) {
                t.push(alpha[rng.below(alpha.len() as u64) as usize]);
            }
        }
        2 => {
            // near-valid: swapped, single char, wrong case glyph
            let r = model::RANK_CHARS[rng.below(13) as usize];
            let s = "SHDC".chars().nth(rng.below(4) as usize).unwrap();
            match rng.below(4) {
                0 => {
                    t.push(s);
                    t.push(r);
                }
                1 => t.push(r),
                2 => {
                    t.push(r);
                    t.push('\u{FE0F}');
                    t.push(s);
                }
                _ => {
                    t.push('1');
                    t.push('0');
                    t.push(s);
                }
            }
        }
        _ => {
            let len = 1 + rng.below(5);
            for _ in 0..len {
                let c = if rng.chance(1, 8) {
                    char::from_u32(rng.below(0x110000) as u32).unwrap_or('?')
                } else {
                    alpha[rng.below(alpha.len() as u64) as usize]
                };
                if !c.is_whitespace() {
                    t.push(c);
                }
            }
        }
    }
    t
}

pub fn run(ctx: &Ctx) -> Rep {
    let mut rep = Rep::new();
    let seed = ctx.seed;
    let alpha = alphabet();
    // (the two full scans of the scalar space are skipped in the smoke tier, where the interpreter makes them expensive)
    let ws = if ctx.smoke() { SEPARATORS.to_vec() } else { all_white_space() };
    rep.self_check("model: 19 rank symbols and 16 suit symbols over all scalar values", ctx.smoke() || {
        let mut r = 0;
        let mut s = 0;
        for c in (0..=0x10FFFFu32).filter_map(char::from_u32) {
            r += model::rank_of_symbol(c).is_some() as u32;
            s += model::suit_of_symbol(c).is_some() as u32;
        }
        r == 19 && s == 16
    });
    rep.add("unicode_white_space_characters_used_as_separators", ws.len() as u64);

    // ---- (1) every Unicode scalar value -------------------------------------------------
    // through both symbol tables, and as first / second character of a token
    let planes: Vec<u32> = if ctx.smoke() { vec![0, 0x26, 0x10FF] } else { (0..0x1100u32).collect() }; // blocks of 256 code points
    let s1 = par_run(ctx, planes.len(), mk, |st, pi| {
        let base = planes[pi] << 8;
        let mut buf = String::new();
        for lo in 0..256u32 {
            let Some(c) = char::from_u32(base | lo) else { continue };
            check_scalar(st, c);
            st.rep.distinct += 1;
            for (first, second) in [(Some(c), Some('s')), (Some(c), Some('x')), (Some('K'), Some(c)), (Some('z'), Some(c)), (Some(c), None)] {
                buf.clear();
                if let Some(a) = first {
                    buf.push(a);
                }
                if let Some(b) = second {
                    buf.push(b);
                }
                check_token(st, &buf);
            }
            // ... and inside hand texts of every size: glued in front of the first card, as a token of its own in
            // front, glued behind the last card, and wedged between the first two cards - so that a hand parser
            // (or the bit-set parser) that treats some character specially (strips it, splits on it, stops at it)
            // is seen doing so, not only the single-token parser
            if ctx.smoke() && lo % 64 != 1 {
                continue;
            }
            const CARDS: [&str; 7] = ["AS", "KD", "QC", "JH", "TS", "9S", "8D"];
            for n in 2..=7usize {
                for shape in 0..4 {
                    buf.clear();
                    match shape {
                        0 => {
                            buf.push(c);
                            buf.push_str(&CARDS[..n].join(" "));
                        }
                        1 => {
                            buf.push(c);
                            buf.push(' ');
                            buf.push_str(&CARDS[..n - 1].join(" "));
                        }
                        2 => {
                            buf.push_str(&CARDS[..n].join(" "));
                            buf.push(c);
                        }
                        _ => {
                            buf.push_str(CARDS[0]);
                            buf.push(c);
                            buf.push_str(&CARDS[1..n].join(" "));
                        }
                    }
                    check_text(st, &buf);
                    st.x.scalar_texts += 1;
                }
            }
        }
    });
    let (r1, x1) = merge_states(s1);
    rep.merge(r1);

    // ---- (2) all pairs over the alphabet x tails, as whole texts ---------------------------
    let kb = "k".repeat(1024);
    let tails: Vec<String> = if ctx.smoke() { vec!["".into(), " Ah".into()] } else { vec!["".into(), "x".into(), "♠".into(), "\u{FE0F}".into(), kb, " Ah".into()] };
    let s2 = par_run(ctx, alpha.len(), mk, |st, ai| {
        if ctx.smoke() && ai % 9 != 0 {
            return;
        }
        let a = alpha[ai];
        for &b in &alpha {
            for t in &tails {
                let mut s = String::new();
                s.push(a);
                s.push(b);
                s.push_str(t);
                check_text(st, &s);
                st.x.hashes.insert(drive::hash_bytes(s.as_bytes()));
            }
        }
        // empty and one-character texts
        check_text(st, "");
        check_text(st, &a.to_string());
    });
    let (r2, x2) = merge_states(s2);
    rep.merge(r2);

    // ---- (3) hand parsers: 0..n+2 tokens, every Unicode white-space separator ----------------
    let s3 = par_run(ctx, ws.len(), mk, |st, wi| {
        let sep = ws[wi];
        let mut rng = Rng::new(seed, 0xC12_0000 + wi as u64);
        for ntok in 0..=9usize {
            for variant in 0..4 {
                let mut s = String::new();
                if variant & 1 == 1 {
                    s.push(sep); // leading separator
                }
                for k in 0..ntok {
                    if k > 0 {
                        s.push(sep);
                        if variant & 2 == 2 {
                            s.push(ws[rng.below(ws.len() as u64) as usize]); // doubled, mixed separators
                        }
                    }
                    s.push_str(&random_token(&mut rng, &alpha));
                }
                if variant & 1 == 1 {
                    s.push(sep);
                }
                check_text(st, &s);
                st.x.hashes.insert(drive::hash_bytes(s.as_bytes()));
            }
        }
    });
    let (r3, x3) = merge_states(s3);
    rep.merge(r3);

    // ---- (4) seeded strings ---------------------------------------------------------------------
    let n_rand = ctx.pick(300, 2_000_000, 20_000_000) as usize;
    let chunks = 64usize;
    let s4 = par_run(ctx, chunks, mk, |st, ch| {
        let mut rng = Rng::new(seed, 0xC12_1000 + ch as u64);
        for it in 0..(n_rand / chunks) {
            let ntok = rng.below(10) as usize;
            let mut s = String::new();
            if rng.chance(1, 5) {
                s.push(ws[rng.below(ws.len() as u64) as usize]);
            }
            for k in 0..ntok {
                if k > 0 {
                    for _ in 0..(1 + rng.below(2)) {
                        s.push(if rng.chance(3, 4) { ' ' } else { ws[rng.below(ws.len() as u64) as usize] });
                    }
                }
                s.push_str(&random_token(&mut rng, &alpha));
            }
            if rng.chance(1, 5) {
                s.push(ws[rng.below(ws.len() as u64) as usize]);
            }
            check_text(st, &s);
            if it < 400_000 / chunks {
                st.x.hashes.insert(drive::hash_bytes(s.as_bytes()));
            }
            if st.rep.want_sample() && it % 1013 == 5 {
                let toks: Vec<String> = model::tokens(&s).iter().map(|t| model::card_name(model::parse_token(t))).collect();
                st.rep.sample(format!("{:?} -> tokens parse to {:?}", s, toks));
            }
        }
    });
    let (r4, x4) = merge_states(s4);
    rep.merge(r4);

    // ---- (4a) shortest texts: every pattern of token byte lengths, no padding ------------------------------
    // Texts of 1..=8 tokens joined by single one-byte separators, every token 1, 2 or 3 bytes long in every
    // combination (so every total byte length from 2n-1 upwards occurs for n tokens), with blank, card and
    // glyph tokens of each length: where a parser that sizes, pre-checks or slices the text by byte length
    // rather than by tokens goes wrong on the shortest legal inputs.
    {
        let mut st = St { rep: Rep::new(), x: mk(), cur: [0; 8], cur_len: 0, cur_what: "" };
        let by_len: [&[&str]; 3] = [&["A", "x", "9"], &["Ah", "xx", "2c", "é"], &["Ahx", "♠", "10s", "K♦"]];
        let mut n_texts = 0u64;
        let mut lens_seen = std::collections::BTreeSet::new();
        for ntok in 1..=8usize {
            let patterns = 3usize.pow(ntok as u32);
            for pat in 0..patterns {
                for (variant, sep) in [(0usize, ' '), (1, ' '), (2, '\t'), (3, ' ')] {
                    if ctx.smoke() && (pat + variant) % 97 != 0 {
                        continue;
                    }
                    let mut s = String::new();
                    let mut p = pat;
                    for k in 0..ntok {
                        if k > 0 {
                            s.push(sep);
                        }
                        let choices = by_len[p % 3];
                        p /= 3;
                        s.push_str(choices[(variant + k * (variant / 3)) % choices.len()]);
                    }
                    lens_seen.insert((ntok, s.len()));
                    check_text(&mut st, &s);
                    n_texts += 1;
                }
            }
        }
        // cards written back to back: 2..7 cards with every choice of which neighbours are separated by a space
        // and which are glued ("AsKd Qc": two tokens, the first of which is the ace - its tail is ignored), in
        // letters and in glyphs; the number of tokens, not the number of card-like substrings, decides
        let mut glued = 0u64;
        for glyph in [false, true] {
            let name = |i: u8| {
                if glyph {
                    format!("{}{}", model::RANK_CHARS[model::rank_of(i) as usize], ['♠', '♥', '♦', '♣'][model::suit_of(i) as usize])
                } else {
                    model::card_name(i)
                }
            };
            for (base, stride) in [(0u8, 1u8), (3, 7), (50, 49)] {
                for n in 2..=7usize {
                    for mask in 0..(1u32 << (n - 1)) {
                        if ctx.smoke() && mask % 5 != 0 {
                            continue;
                        }
                        let mut s = String::new();
                        for k in 0..n {
                            if k > 0 && (mask >> (k - 1)) & 1 == 1 {
                                s.push(' ');
                            }
                            s.push_str(&name(((base as usize + k * stride as usize) % 52) as u8));
                        }
                        check_text(&mut st, &s);
                        glued += 1;
                    }
                }
            }
        }
        st.rep.add("texts_with_cards_glued_back_to_back", glued);
        st.rep.distinct += glued;
        st.rep.add("shortest_texts_by_token_length_pattern", n_texts);
        st.rep.add("distinct_token_count_and_byte_length_pairs", lens_seen.len() as u64);
        st.rep.distinct += n_texts;
        rep.merge(st.rep);
    }

    // ---- (4b) long texts: more tokens than there are cards ------------------------------------------------
    {
        let mut st = St { rep: Rep::new(), x: mk(), cur: [0; 8], cur_len: 0, cur_what: "" };
        let mut rng = Rng::new(seed, 0xC12_4B00);
        let card_tok = |i: u8| format!("{}{}", model::RANK_CHARS[model::rank_of(i) as usize], ['s', 'h', 'd', 'c'][model::suit_of(i) as usize]);
        let mut texts: Vec<String> = Vec::new();
        for lead in [52usize, 53, 60, 100, 300] {
            // `lead` blank tokens (or repeats of one card), then a card that has not appeared yet
            texts.push(format!("{} 2c", vec!["xx"; lead].join(" ")));
            texts.push(format!("{} Kh", vec!["As"; lead].join(" ")));
        }
        texts.push((0..52u8).map(|i| format!("{0} {0}", card_tok(i))).collect::<Vec<_>>().join(" ")); // every card named twice
        texts.push((0..52u8).map(|i| format!("zz {}", card_tok(i))).collect::<Vec<_>>().join(" ")); // a blank between cards
        texts.push((0..52u8).rev().map(card_tok).chain((0..52u8).map(card_tok)).collect::<Vec<_>>().join("\t"));
        for _ in 0..ctx.pick(3, 300, 3000) {
            let n = 40 + rng.below(200) as usize;
            let mut v: Vec<String> = Vec::new();
            for _ in 0..n {
                v.push(if rng.chance(1, 3) { "??".to_string() } else { card_tok(rng.below(52) as u8) });
            }
            texts.push(v.join(" "));
        }
        for t in &texts {
            check_text(&mut st, t);
        }
        st.rep.add("texts_with_more_than_52_tokens", texts.len() as u64);
        st.rep.distinct += texts.len() as u64;
        let x = st.x;
        rep.merge(st.rep);
        rep.set_max("max.longest_text_bytes", x.longest);
    }

    // ---- (4b') column-aligned texts with empty cells ----------------------------------------------------
    // Fixed-width hand texts ("AS KS QS ...": two-character cells separated by one separator) in which some
    // cells are blanked out with spaces: the byte length and the alignment are those of a complete hand, the
    // number of whitespace-separated tokens is not. Every non-empty set of blanked cells, sizes 2..7, a few
    // separators and seeded cards; also cells widened to three characters ("10s").
    {
        let mut st = St { rep: Rep::new(), x: mk(), cur: [0; 8], cur_len: 0, cur_what: "" };
        let mut rng = Rng::new(seed, 0xC12_4C00);
        let mut n_texts = 0u64;
        for n in 2..=7usize {
            for blank_mask in 0u32..(1 << n) {
                for sep in [' ', '\t', '\u{A0}'] {
                    for style in 0..3 {
                        let mut s = String::new();
                        for k in 0..n {
                            if k > 0 {
                                s.push(sep);
                            }
                            if blank_mask >> k & 1 == 1 {
                                s.push_str(if style == 2 { "   " } else { "  " });
                            } else {
                                let i = rng.below(52) as u8;
                                let r = model::RANK_CHARS[model::rank_of(i) as usize];
                                let su = if style == 1 { ['♠', '♥', '♦', '♣'][model::suit_of(i) as usize] } else { ['S', 'H', 'D', 'C'][model::suit_of(i) as usize] };
                                s.push(r);
                                s.push(su);
                                if style == 2 {
                                    s.push('x');
                                }
                            }
                        }
                        check_text(&mut st, &s);
                        n_texts += 1;
                        if ctx.smoke() && n_texts > 40 {
                            break;
                        }
                    }
                }
            }
        }
        st.rep.add("column_aligned_texts_with_empty_cells", n_texts);
        st.rep.distinct += n_texts;
        rep.merge(st.rep);
    }

    // ---- (4b'') repeated and nested tokens ---------------------------------------------------------------
    // Hand texts in which tokens repeat or contain one another ("AS AS KS ...", "KSx KS ...", "AS S ..."): the
    // slots must still be filled in token order. Every position pair (i, j) of every size gets the same token,
    // a token that is a prefix / suffix / infix of the other, and a one-character token.
    {
        let mut st = St { rep: Rep::new(), x: mk(), cur: [0; 8], cur_len: 0, cur_what: "" };
        let mut rng = Rng::new(seed, 0xC12_4D00);
        let card_tok = |i: u8| format!("{}{}", model::RANK_CHARS[model::rank_of(i) as usize], ['S', 'H', 'D', 'C'][model::suit_of(i) as usize]);
        let mut n_texts = 0u64;
        for n in 2..=7usize {
            for i in 0..n {
                for j in 0..n {
                    if i == j {
                        continue;
                    }
                    for variant in 0..5 {
                        let mut deck: Vec<u8> = (0..52).collect();
                        rng.shuffle(&mut deck);
                        let mut toks: Vec<String> = deck[..n].iter().map(|&c| card_tok(c)).collect();
                        let base = toks[j].clone();
                        toks[i] = match variant {
                            0 => base.clone(),                        // identical
                            1 => format!("{}x", base),                // j is a prefix of i
                            2 => format!("x{}", base),                // j is a suffix of i
                            3 => base[1..].to_string(),               // i is the one-character tail of j
                            _ => format!("{}{}", base, base),         // doubled
                        };
                        let s = toks.join(" ");
                        check_text(&mut st, &s);
                        n_texts += 1;
                    }
                }
            }
            if ctx.smoke() {
                break;
            }
        }
        st.rep.add("texts_with_repeated_or_nested_tokens", n_texts);
        st.rep.distinct += n_texts;
        rep.merge(st.rep);
    }

    // ---- (4c) token sequences: a token right after a look-alike ------------------------------------------
    // Parsing a token must not depend on what was parsed before. For every valid two-symbol token t and every
    // "alias" of it (a character whose code point agrees with the symbol in its low 8 or 16 bits, from other
    // planes; the other case; a neighbouring code point) the calls run  t, alias, t, alias  with every result
    // checked against the model - single-threaded, so that nothing else is parsed in between.
    {
        let mut st = St { rep: Rep::new(), x: mk(), cur: [0; 8], cur_len: 0, cur_what: "" };
        let aliases = |c: char| -> Vec<char> {
            let u = c as u32;
            let mut v: Vec<char> = Vec::new();
            for k in 1..=16u32 {
                v.extend(char::from_u32(u + (k << 16)));
                v.extend(char::from_u32((u & 0xFFFF) | (k << 16)));
            }
            for k in 1..=8u32 {
                v.extend(char::from_u32(u + (k << 8)));
                v.extend(char::from_u32((u & 0xFF) | (k << 8)));
            }
            v.extend(char::from_u32(u + 1));
            v.extend(char::from_u32(u.wrapping_sub(1)));
            v.extend(char::from_u32(u ^ 0x20));
            v.retain(|&a| a != c && !a.is_whitespace());
            v.sort_unstable();
            v.dedup();
            v
        };
        let ranks: Vec<char> = "AaKkQqJjTt098765432".chars().collect();
        let suits: Vec<char> = "SsHhDdCc♠♤♥♡♦♢♣♧".chars().collect();
        let step = if ctx.smoke() { 9 } else { 1 };
        let mut seqs = 0u64;
        for &r in ranks.iter().step_by(step) {
            for &s in suits.iter().step_by(step) {
                let t: String = [r, s].iter().collect();
                let mut variants: Vec<String> = Vec::new();
                for a in aliases(r) {
                    variants.push([a, s].iter().collect());
                }
                for a in aliases(s) {
                    variants.push([r, a].iter().collect());
                }
                for (vi, v) in variants.iter().enumerate() {
                    if ctx.smoke() && vi % 8 != 0 {
                        continue;
                    }
                    check_token(&mut st, &t);
                    check_token(&mut st, v);
                    check_token(&mut st, &t);
                    check_token(&mut st, v);
                    // and inside one hand text
                    check_text(&mut st, &format!("{} {}", t, v));
                    check_text(&mut st, &format!("{} {} {} {} {}", v, t, v, t, v));
                    seqs += 1;
                }
            }
        }
        st.rep.add("look_alike_token_sequences", seqs);
        rep.merge(st.rep);
    }

    // ---- (5) round trip of the two renderings of every card -----------------------------------
    for i in 0..52u8 {
        let w = model::word(i);
        for (entry, s) in [
            ("rank char + suit glyph", format!("{}{}", w.get_rank_char(), w.get_suit_char())),
            ("rank char + suit letter", format!("{}{}", w.get_rank_char(), w.get_suit_letter())),
        ] {
            rep.evaluations += 1;
            rep.distinct += 1;
            match guard(|| <CKCNumber as PokerCard>::from_index(&s)) {
                Ok(got) => {
                    if got != w {
                        rep.violation("rendering a card with its rank and suit characters parses back to the same card", entry, Input::Idx(vec![i]), format!("{:#010x}", w), format!("{:?} -> {:#010x}", s, got));
                    }
                }
                Err(m) => rep.violation("parsing never panics on any string", entry, text_input(&s), "normal return".into(), m),
            }
        }
    }
    // the documented example text, all sizes
    {
        let mut st = St { rep: Rep::new(), x: mk(), cur: [0; 8], cur_len: 0, cur_what: "" };
        for s in ["A♠ K♠ Q♠ J♠ T♠ 9♠ 8♠", "AS KS QS JS TS", "as ks", "2c 3d 4h", "A♠ K♠ Q♠ J♠ xx", "0d 0h", "A K Q J T 9 8 7"] {
            check_text(&mut st, s);
        }
        rep.merge(st.rep);
    }

    let mut acc = mk();
    for x in x1.into_iter().chain(x2).chain(x3).chain(x4) {
        acc.rank_symbols += x.rank_symbols;
        acc.suit_symbols += x.suit_symbols;
        acc.scalars += x.scalars;
        acc.tokens_card += x.tokens_card;
        acc.tokens_blank += x.tokens_blank;
        acc.texts += x.texts;
        acc.panics += x.panics;
        acc.scalar_texts += x.scalar_texts;
        acc.longest = acc.longest.max(x.longest);
        for k in 0..8 {
            acc.hand_fewer[k] += x.hand_fewer[k];
            acc.hand_exact[k] += x.hand_exact[k];
            acc.hand_more[k] += x.hand_more[k];
        }
        acc.hashes.extend(x.hashes);
    }
    rep.distinct += acc.hashes.len() as u64;
    rep.add("scalar_values_through_both_symbol_tables", acc.scalars);
    rep.add("rank_symbols_accepted_by_the_crate", acc.rank_symbols);
    rep.add("suit_symbols_accepted_by_the_crate", acc.suit_symbols);
    rep.add("tokens_that_parse_to_a_card(model)", acc.tokens_card);
    rep.add("tokens_that_parse_to_blank(model)", acc.tokens_blank);
    rep.add("texts_through_every_entry_point", acc.texts);
    rep.add("max.longest_text_bytes", acc.longest);
    rep.add("panics_caught", acc.panics);
    rep.add("hand_texts_with_each_scalar_value_in_four_positions", acc.scalar_texts);
    for n in 2..=7 {
        rep.add(&format!("size{}.texts_with_fewer_tokens", n), acc.hand_fewer[n]);
        rep.add(&format!("size{}.texts_with_exactly_n_tokens", n), acc.hand_exact[n]);
        rep.add(&format!("size{}.texts_with_more_tokens(panic-only)", n), acc.hand_more[n]);
    }
    if !ctx.smoke() {
        rep.floor("scalar values", acc.scalars, 1_112_064);
        rep.floor("rank symbols accepted", acc.rank_symbols, 19);
        rep.floor("suit symbols accepted", acc.suit_symbols, 16);
        for n in 2..=7 {
            rep.floor(&format!("size {} texts with fewer tokens", n), acc.hand_fewer[n], 100);
            rep.floor(&format!("size {} texts with exactly n tokens", n), acc.hand_exact[n], 100);
        }
    }
    rep.exhaustive = Some(false);
    rep.rule = format!(
        "all 1,112,064 scalar values through both symbol tables and as first/second character of a token; all pairs over a {}-character alphabet \
         (all 35 symbols, separators, multi-byte, combining, NUL, U+10FFFF) x 6 tails through every text entry point; hand texts with 0..9 tokens for each of the {} \
         Unicode white-space characters as separator; {} seeded texts; texts of 53..300 tokens; every valid token interleaved with its look-alikes (same low 8/16 code-point bits, other case, neighbours); 104 renderings. distinct = scalars + hash-set count of the texts (bounded prefix of the seeded ones)",
        alpha.len(),
        ws.len(),
        n_rand
    );
    rep
}

pub fn replay(_ctx: &Ctx, inp: &Input, _clause: &str) -> Rep {
    let mut rep = Rep::new();
    let mut st = St { rep: Rep::new(), x: mk(), cur: [0; 8], cur_len: 0, cur_what: "" };
    match inp {
        Input::Text(s) => {
            check_text(&mut st, s);
            let mut it = s.chars();
            if let (Some(c), None) = (it.next(), it.next()) {
                check_scalar(&mut st, c);
            }
        }
        Input::Idx(v) if v.len() == 1 && v[0] < 52 => {
            let w = model::word(v[0]);
            for s in [format!("{}{}", w.get_rank_char(), w.get_suit_char()), format!("{}{}", w.get_rank_char(), w.get_suit_letter())] {
                match guard(|| <CKCNumber as PokerCard>::from_index(&s)) {
                    Ok(got) if got == w => {}
                    Ok(got) => st.rep.violation("rendering a card with its rank and suit characters parses back to the same card", "rendering", inp.clone(), format!("{:#010x}", w), format!("{:?} -> {:#010x}", s, got)),
                    Err(m) => st.rep.violation("parsing never panics on any string", "rendering", inp.clone(), "normal return".into(), m),
                }
            }
        }
        _ => bad_replay(&mut rep, "C12 wants text (code points) or idx: one card"),
    }
    st.rep.distinct = 1;
    rep.merge(st.rep);
    rep
}
