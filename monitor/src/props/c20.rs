//! C20 — multiples flags leave card fields intact, strip cleanly, and dominate order.

use crate::common::{Ctx, Input, Rep};
use crate::drive;
use crate::model;
use ckc_rs::{PokerCard, Shifty};

/// apply marks in the given order; mark 0 = pair, 1 = trips, 2 = quads
fn apply(w: u32, order: &[u8]) -> u32 {
    let mut x = w;
    for &m in order {
        x = match m {
            0 => x.flag_as_pair(),
            1 => x.flag_as_trips(),
            _ => x.flag_as_quads(),
        };
    }
    x
}

/// every sequence of marks of length 0..=4 over {pair, trips, quads} (covers every subset in every order, with repeats)
fn mark_sequences() -> Vec<Vec<u8>> {
    let mut out = vec![vec![]];
    let mut frontier = vec![vec![]];
    for _ in 0..4 {
        let mut next = Vec::new();
        for s in &frontier {
            for m in 0..3u8 {
                let mut t: Vec<u8> = s.clone();
                t.push(m);
                next.push(t);
            }
        }
        out.extend(next.iter().cloned());
        frontier = next;
    }
    out
}

fn mask_of(seq: &[u8]) -> u32 {
    let mut m = 0u32;
    for &k in seq {
        m |= 1 << k;
    }
    m
}

fn check_card(rep: &mut Rep, i: u8, seqs: &[Vec<u8>], words_seen: &mut std::collections::BTreeSet<u32>) {
    let c = model::word(i);
    let r = model::rank_of(i);
    let s = model::suit_of(i);
    for seq in seqs {
        let marked = apply(c, seq);
        let m = mask_of(seq);
        words_seen.insert(marked);
        rep.evaluations += 1;
        rep.distinct += 1;
        let inp = || Input::Ops(vec![format!("card{}", i), format!("marks{}", seq.iter().map(|x| x.to_string()).collect::<String>())]);
        let want = c | (m << 29);
        if marked != want {
            rep.violation("marking sets only the top three bits (pair = bit 29, trips = bit 30, quads = bit 31)", "flag_as_pair/trips/quads", inp(), format!("{:#010x}", want), format!("{:#010x}", marked));
            continue;
        }
        // idempotent: marking again with any mark already applied changes nothing
        for &k in seq.iter() {
            rep.evaluations += 1;
            let again = apply(marked, &[k]);
            if again != marked {
                rep.violation("marking is idempotent", "flag_as_*", inp(), format!("{:#010x}", marked), format!("{:#010x}", again));
            }
        }
        // fields read the same as on the unmarked card
        rep.evaluations += 10;
        let same = marked.get_card_rank() == c.get_card_rank()
            && marked.get_card_suit() == c.get_card_suit()
            && marked.get_rank_bit() == c.get_rank_bit()
            && marked.get_rank_flag() == c.get_rank_flag()
            && marked.get_rank_prime() == c.get_rank_prime()
            && marked.get_suit_bit() == c.get_suit_bit()
            && marked.get_suit_flag() == c.get_suit_flag()
            && marked.get_rank_char() == c.get_rank_char()
            && marked.get_suit_char() == c.get_suit_char()
            && marked.get_suit_letter() == c.get_suit_letter()
            // the accessors derived from the rank and suit fields read the same as well
            && marked.get_chen_points() == c.get_chen_points()
            && marked.next_suit() == c.next_suit()
            && marked.is_blank() == c.is_blank()
            && marked.shift_suit() == c.shift_suit();
        // ... and as the layout says
        let by_layout = marked.get_rank_bit() == 1 << r
            && marked.get_rank_prime() == model::PRIMES[r as usize]
            && marked.get_suit_bit() == 8 >> s
            && model::rank_of_symbol(marked.get_rank_char()) == Some(r)
            && model::suit_of_symbol(marked.get_suit_char()) == Some(s)
            && model::suit_of_symbol(marked.get_suit_letter()) == Some(s);
        if !same || !by_layout {
            rep.violation(
                "rank, suit, prime and characters of a marked card read the same as on the unmarked card",
                "accessors on a marked word",
                inp(),
                format!("rank {:?} suit {:?} prime {} chars {}{}{} chen points {} next suit {:?}", c.get_card_rank(), c.get_card_suit(), c.get_rank_prime(), c.get_rank_char(), c.get_suit_char(), c.get_suit_letter(), c.get_chen_points(), c.next_suit()),
                format!("rank {:?} suit {:?} prime {} chars {}{}{} chen points {} next suit {:?}", marked.get_card_rank(), marked.get_card_suit(), marked.get_rank_prime(), marked.get_rank_char(), marked.get_suit_char(), marked.get_suit_letter(), marked.get_chen_points(), marked.next_suit()),
            );
        }
        rep.evaluations += 1;
        let stripped = marked.strip_multiples_flags();
        if stripped != c {
            rep.violation("stripping returns the original card for any combination of marks", "strip_multiples_flags", inp(), format!("{:#010x}", c), format!("{:#010x}", stripped));
        }
        // order: every marked word above every unmarked card; highest mark decides between marked words
        if m != 0 {
            for j in 0..52u8 {
                rep.evaluations += 1;
                // ... and that is what the crate's own sort does with it: the marked word ahead of the unmarked
                // card, whichever slot it started in (the priority the marks exist to give)
                for pair in [[marked, model::word(j)], [model::word(j), marked]] {
                    let (s, _, ip) = crate::props::crate_sort_both(&pair);
                    rep.evaluations += 2;
                    if s != [marked, model::word(j)] || ip != [marked, model::word(j)] {
                        rep.violation(
                            "a marked word sorts ahead of every unmarked card (the sorting priority the marks exist to give)",
                            "Two::sort / sort_in_place",
                            Input::Words(pair.to_vec()),
                            format!("{:08X?}", [marked, model::word(j)]),
                            format!("sort {:08X?} / sort_in_place {:08X?}", s, ip),
                        );
                    }
                }
                if !(marked > model::word(j)) {
                    rep.violation("every marked word is numerically greater than every unmarked card", "integer order", inp(), format!("> {:#010x}", model::word(j)), format!("{:#010x}", marked));
                }
                for m2 in 1..8u32 {
                    let other = apply(model::word(j), &(0..3u8).filter(|k| m2 >> k & 1 == 1).collect::<Vec<u8>>());
                    rep.evaluations += 1;
                    let (h1, h2) = (31 - m.leading_zeros(), 31 - m2.leading_zeros()); // highest mark of each
                    if h1 != h2 && (marked > other) != (h1 > h2) {
                        rep.violation(
                            "between marked words the highest mark decides: quads above trips above pair",
                            "integer order",
                            Input::Ops(vec![format!("card{}", i), format!("marks{}", seq.iter().map(|x| x.to_string()).collect::<String>()), format!("vs card{} mask{}", j, m2)]),
                            format!("{:#010x} {} {:#010x}", marked, if h1 > h2 { ">" } else { "<" }, other),
                            "the opposite".into(),
                        );
                    }
                }
            }
        }
    }
}

pub fn run(ctx: &Ctx) -> Rep {
    let mut rep = Rep::new();
    let seqs = mark_sequences();
    let mut words = std::collections::BTreeSet::new();
    let step = if ctx.smoke() { 13 } else { 1 };
    let r = drive::guard(|| {
        for i in (0..52u8).step_by(step) {
            check_card(&mut rep, i, &seqs, &mut words);
        }
    });
    if let Err(msg) = r {
        rep.violation("panic", "multiples flags", Input::None, "normal return".into(), msg);
    }
    // the same priority through the sorts of the larger hands: hands of 3..7 words drawn from the cards of one or
    // two ranks with seeded marks (marked and unmarked copies of the same rank side by side) must come out in
    // descending numeric order, copy and in place
    {
        let mut rng = drive::Rng::new(ctx.seed, 0xC20_5027);
        let rounds = if ctx.smoke() { 3 } else { 400 };
        let mut sorted_hands = 0u64;
        for r in 0..13u8 {
            for _ in 0..rounds {
                let r2 = rng.below(13) as u8;
                let n = 3 + rng.below(5) as usize;
                let w: Vec<u32> = (0..n)
                    .map(|_| {
                        let rank = if rng.chance(2, 3) { r } else { r2 };
                        let c = model::word(model::idx(rank, rng.below(4) as u8));
                        if rng.chance(1, 2) {
                            c | ((1 + rng.below(7) as u32) << 29)
                        } else {
                            c
                        }
                    })
                    .collect();
                let mut want = w.clone();
                want.sort_unstable_by(|a, b| b.cmp(a));
                let res = drive::guard(|| crate::props::crate_sort_both(&w));
                rep.evaluations += 2;
                sorted_hands += 1;
                match res {
                    Ok((s, _, ip)) => {
                        if s != want || ip != want {
                            rep.violation(
                                "marked words sort ahead of unmarked cards, quads above trips above pair (the sorting priority the marks exist to give)",
                                "sort / sort_in_place",
                                Input::Words(w.clone()),
                                format!("{:08X?}", want),
                                format!("sort {:08X?} / sort_in_place {:08X?}", s, ip),
                            );
                        }
                    }
                    Err(m) => rep.violation("panic", "sort", Input::Words(w.clone()), "normal return".into(), m),
                }
            }
        }
        rep.add("hands_of_marked_and_unmarked_same_rank_cards_sorted", sorted_hands);
    }
    // rank and suit read the same through the two readers of the two-card hand that look at nothing else: every
    // ordered pair of distinct cards with every combination of marks on either card is a pocket pair / suited
    // exactly when the unmarked hand is. (The score, gap, connector and high-card readers go through the hand's
    // sort, where marks take priority by design - the last clause of this property - so they are not compared.)
    {
        use ckc_rs::cards::two::Two;
        let step = if ctx.smoke() { 11 } else { 1 };
        let mut marked_hands = 0u64;
        let r = drive::guard(|| {
            for a in (0..52u8).step_by(step) {
                for b in 0..52u8 {
                    if a == b {
                        continue;
                    }
                    let plain = Two::new(model::word(a), model::word(b));
                    let want = (plain.is_pocket_pair(), plain.is_suited());
                    for ma in 0..8u32 {
                        for mb in 0..8u32 {
                            if ma == 0 && mb == 0 {
                                continue;
                            }
                            let h = Two::new(model::word(a) | (ma << 29), model::word(b) | (mb << 29));
                            let got = (h.is_pocket_pair(), h.is_suited());
                            marked_hands += 1;
                            if got != want {
                                rep.violation(
                                    "a marked card's rank and suit read the same (through the two-card hand's readers)",
                                    "Two::is_pocket_pair / is_suited",
                                    Input::Words(h.to_arr().to_vec()),
                                    format!("{:?} as for the unmarked hand", want),
                                    format!("{:?}", got),
                                );
                            }
                        }
                    }
                }
            }
        });
        if let Err(msg) = r {
            rep.violation("panic", "Two readers on marked cards", Input::None, "normal return".into(), msg);
        }
        rep.evaluations += marked_hands * 2;
        rep.add("two_card_hands_with_marks_read_like_the_unmarked_hand", marked_hands);
    }
    // the suit reads the same through the five-card flush test too (method and deprecated free function): every
    // single-suit hand and a seeded sample of other hands, with the same mark on all five cards (each of the seven
    // combinations) and with seeded marks per card, is a flush exactly when the unmarked hand is
    {
        use ckc_rs::cards::five::Five;
        let mut rng = drive::Rng::new(ctx.seed, 0xC20_F105);
        let mut hands: Vec<[u8; 5]> = Vec::new();
        if !ctx.smoke() {
            for mask in 0u32..(1 << 13) {
                if mask.count_ones() != 5 {
                    continue;
                }
                let ranks: Vec<u8> = (0..13u8).filter(|r| mask >> r & 1 == 1).collect();
                for suit in 0..4u8 {
                    hands.push([model::idx(ranks[0], suit), model::idx(ranks[1], suit), model::idx(ranks[2], suit), model::idx(ranks[3], suit), model::idx(ranks[4], suit)]);
                }
            }
        }
        for _ in 0..if ctx.smoke() { 20 } else { 4000 } {
            let mut h = [0u8; 5];
            let mut k = 0;
            while k < 5 {
                let x = rng.below(52) as u8;
                if !h[..k].contains(&x) {
                    h[k] = x;
                    k += 1;
                }
            }
            hands.push(h);
        }
        let mut flush_reads = 0u64;
        let r = drive::guard(|| {
            for h in &hands {
                let w: Vec<u32> = h.iter().map(|&i| model::word(i)).collect();
                let plain = [w[0], w[1], w[2], w[3], w[4]];
                let want = model::suit_of(h[0]) == model::suit_of(h[1]) && model::suit_of(h[1]) == model::suit_of(h[2]) && model::suit_of(h[2]) == model::suit_of(h[3]) && model::suit_of(h[3]) == model::suit_of(h[4]);
                for variant in 0..10u32 {
                    let mut m = plain;
                    for x in m.iter_mut() {
                        let marks = match variant {
                            0 => 0,
                            1..=7 => variant,
                            _ => rng.below(8) as u32,
                        };
                        *x |= marks << 29;
                    }
                    #[allow(deprecated)]
                    let got = (Five::from(m).is_flush(), ckc_rs::evaluate::is_flush(m));
                    flush_reads += 2;
                    if got != (want, want) {
                        rep.violation(
                            "a marked card's suit reads the same (through the five-card flush test)",
                            "Five::is_flush / evaluate::is_flush",
                            Input::Words(m.to_vec()),
                            format!("{} as for the unmarked hand", want),
                            format!("method {} / free function {}", got.0, got.1),
                        );
                    }
                }
            }
        });
        if let Err(msg) = r {
            rep.violation("panic", "is_flush on marked cards", Input::None, "normal return".into(), msg);
        }
        rep.evaluations += flush_reads;
        rep.add("flush_tests_on_marked_five_card_hands", flush_reads);
    }
    rep.add("mark_sequences_per_card(length 0..=4 over pair/trips/quads, every order)", seqs.len() as u64);
    rep.add("distinct_marked_words_produced", words.len() as u64);
    let c = model::word(0);
    rep.sample(format!("ace of spades {:#010x}: pair {:#010x} trips {:#010x} quads {:#010x} all {:#010x} stripped {:#010x}", c, c.flag_as_pair(), c.flag_as_trips(), c.flag_as_quads(), c.flag_as_pair().flag_as_trips().flag_as_quads(), c.flag_as_quads().strip_multiples_flags()));
    let d = model::word(51);
    rep.sample(format!("deuce of clubs flagged as pair {:#010x} > unflagged ace of spades {:#010x}: {}", d.flag_as_pair(), c, d.flag_as_pair() > c));
    if !ctx.smoke() {
        rep.floor("marked words produced", words.len() as u64, 52 * 8);
        rep.exhaustive = Some(true);
    }
    rep.rule = "all 52 cards x every sequence of up to four marks over {pair, trips, quads} (121 sequences: every subset in every application order, with repeats), \
                accessors against the unmarked card and the layout, strip, and integer order against all 52 unmarked cards and all 52 x 7 marked words; distinct = (card, sequence) pairs"
        .to_string();
    rep
}

pub fn replay(ctx: &Ctx, _inp: &Input, _clause: &str) -> Rep {
    // tiny and constant: a replay is a re-run of the whole check
    run(ctx)
}
