//! C15 — card bit-sets behave as sets: union, subset, count, validity, ordered peel.

use crate::common::{Ctx, Input, Rep};
use crate::drive::{self, merge_states, par_run, Rng, St};
use crate::model;
use crate::props::named::NAMED_RANK_MASKS;
use crate::props::{bad_replay, model_card_index};
use ckc_rs::cards::binary_card::BC64;
use ckc_rs::cards::five::Five;
use ckc_rs::cards::four::Four;
use ckc_rs::cards::seven::Seven;
use ckc_rs::cards::six::Six;
use ckc_rs::cards::three::Three;
use ckc_rs::cards::two::Two;

const CARD_MASK: u64 = (1u64 << 52) - 1;

#[derive(Default)]
pub struct X {
    hands: [u64; 8],
    histories: u64,
    peel_events: u64,
    with_overflow: u64,
    longest: u64,
    set_ops: u64,
    texts: u64,
    hashes: std::collections::HashSet<u64>,
}

fn mk() -> X {
    X::default()
}

fn build_from(w: &[u32]) -> u64 {
    match w.len() {
        2 => <u64 as BC64>::from_two(Two::from([w[0], w[1]])),
        3 => <u64 as BC64>::from_three(Three::from([w[0], w[1], w[2]])),
        4 => <u64 as BC64>::from_four(Four::from([w[0], w[1], w[2], w[3]])),
        5 => <u64 as BC64>::from_five(Five::from([w[0], w[1], w[2], w[3], w[4]])),
        6 => <u64 as BC64>::from_six(Six::from([w[0], w[1], w[2], w[3], w[4], w[5]])),
        7 => <u64 as BC64>::from_seven(Seven::from([w[0], w[1], w[2], w[3], w[4], w[5], w[6]])),
        n => panic!("harness: no container of size {}", n),
    }
}

const FROM: [&str; 8] = ["", "", "from_two", "from_three", "from_four", "from_five", "from_six", "from_seven"];

/// a set built from a hand contains exactly the distinct real cards among its slots
fn check_hand(st: &mut St<X>, w: &[u32]) {
    st.flight("BinaryCard::from_<size>", w);
    let got = build_from(w);
    st.rep.evaluations += 1;
    st.x.hands[w.len()] += 1;
    let mut want = 0u64;
    for &x in w {
        if let Some(i) = model_card_index(x) {
            want |= model::bit(i);
        }
    }
    if got != want {
        st.rep.violation(
            "a set built from a hand contains exactly the distinct real cards among its slots",
            &format!("BinaryCard::{}", FROM[w.len()]),
            Input::Words(w.to_vec()),
            format!("{:#018x}", want),
            format!("{:#018x}", got),
        );
    }
}

/// set algebra on a pair of 64-bit values
fn check_ops(st: &mut St<X>, s: u64, c: u64) {
    st.x.set_ops += 1;
    st.rep.evaluations += 5;
    let inp = || Input::U64s(vec![s, c]);
    let f = s.fold_in(c);
    if f != (s | c) {
        st.rep.violation("folding in is union", "BinaryCard::fold_in", inp(), format!("{:#018x}", s | c), format!("{:#018x}", f));
    }
    let h = s.has(c);
    if h != (s & c == c) {
        st.rep.violation("the membership test is a subset test", "BinaryCard::has", inp(), format!("{}", s & c == c), format!("{}", h));
    }
    let mut pop = 0u32;
    let mut t = s;
    while t != 0 {
        pop += (t & 1) as u32;
        t >>= 1;
    }
    if s.number_of_cards() != pop {
        st.rep.violation("the count is the number of members", "BinaryCard::number_of_cards", inp(), format!("{}", pop), format!("{}", s.number_of_cards()));
    }
    if s.is_single_card() != (pop == 1) {
        st.rep.violation("a single card is a set with exactly one member", "BinaryCard::is_single_card", inp(), format!("{}", pop == 1), format!("{}", s.is_single_card()));
    }
    let v = <u64 as BC64>::is_valid(&s);
    let want = s != 0 && s <= CARD_MASK;
    if v != want {
        st.rep.violation("a set is valid exactly when it is non-empty with no bits above the 52 card bits", "BinaryCard::is_valid", inp(), format!("{}", want), format!("{}", v));
    }
}

/// one peel history: peel to exhaustion plus three more calls
fn check_peel(st: &mut St<X>, start: u64) {
    st.x.histories += 1;
    if start & !CARD_MASK != 0 {
        st.x.with_overflow += 1;
    }
    let mut s = start;
    let mut model_s = start;
    let mut steps = 0u64;
    let inp = || Input::U64s(vec![start]);
    loop {
        let r = s.peel();
        st.rep.evaluations += 1;
        st.x.peel_events += 1;
        let cards = model_s & CARD_MASK;
        let want_r = if cards == 0 { 0 } else { 1u64 << (63 - cards.leading_zeros()) };
        let want_s = model_s & !want_r;
        if r != want_r || s != want_s {
            st.rep.violation(
                "peeling removes and returns the highest remaining card in deck order; on exhaustion it returns blank and leaves the set unchanged",
                "BinaryCard::peel",
                inp(),
                format!("call {}: returns {:#018x}, set becomes {:#018x}", steps + 1, want_r, want_s),
                format!("call {}: returned {:#018x}, set became {:#018x}", steps + 1, r, s),
            );
            return;
        }
        model_s = want_s;
        steps += 1;
        if want_r == 0 {
            // exhausted: three more calls must keep returning blank and keep the remainder
            for extra in 0..3 {
                let r2 = s.peel();
                st.rep.evaluations += 1;
                st.x.peel_events += 1;
                if r2 != 0 || s != model_s {
                    st.rep.violation(
                        "peeling removes and returns the highest remaining card in deck order; on exhaustion it returns blank and leaves the set unchanged",
                        "BinaryCard::peel",
                        inp(),
                        format!("extra call {}: returns 0, set stays {:#018x}", extra + 1, model_s),
                        format!("extra call {}: returned {:#018x}, set became {:#018x}", extra + 1, r2, s),
                    );
                    return;
                }
            }
            break;
        }
        if steps > 70 {
            st.rep.violation("peeling terminates", "BinaryCard::peel", inp(), "at most 52 cards".into(), "more than 70 non-blank peels".into());
            return;
        }
    }
    st.x.longest = st.x.longest.max(steps - 1);
}

fn check_text(st: &mut St<X>, s: &str) {
    st.x.texts += 1;
    st.rep.evaluations += 1;
    let got = <u64 as BC64>::from_index(s);
    let mut want = 0u64;
    for t in model::tokens(s) {
        want |= model::bit(model::parse_token(t));
    }
    if got != want {
        st.rep.violation("a set built from text contains exactly the cards among its tokens", "BinaryCard::from_index", Input::Text(s.to_string()), format!("{:#018x}", want), format!("{:#018x}", got));
    }
}

fn random_set(rng: &mut Rng, it: usize) -> u64 {
    let k = (it % 65) as u32;
    let mut b = 0u64;
    if k <= 32 {
        while b.count_ones() < k {
            b |= 1u64 << rng.below(64);
        }
    } else {
        b = u64::MAX;
        while b.count_ones() > k {
            b &= !(1u64 << rng.below(64));
        }
    }
    match it % 3 {
        0 => b & CARD_MASK, // card bits only
        _ => b,
    }
}

pub fn run(ctx: &Ctx) -> Rep {
    let mut rep = Rep::new();
    let seed = ctx.seed;
    let scale = ctx.pick(1, 1, 10) as usize;

    // ---- hands -> sets: all ordered hands for n = 2, 3; seeded for n = 4..7 -----------------
    let sh = par_run(ctx, 53 + 64, mk, |st, ui| {
        if ui < 53 {
            if ctx.smoke() && ui % 13 != 0 {
                return;
            }
            let a = model::word(ui as u8);
            for b in 0..53u8 {
                check_hand(st, &[a, model::word(b)]);
                st.rep.distinct += 1;
                for c in 0..53u8 {
                    check_hand(st, &[a, model::word(b), model::word(c)]);
                    st.rep.distinct += 1;
                }
            }
        } else {
            let ch = ui - 53;
            let mut rng = Rng::new(seed, 0xC15_0000 + ch as u64);
            let per = ctx.pick(200, 2_000_000, 20_000_000) as usize / 64;
            for it in 0..per {
                for n in 4..=7usize {
                    let mut h = [0u32; 7];
                    for s in 0..n {
                        h[s] = match rng.below(10) {
                            0 => 0,                                                              // blank
                            1 if s > 0 => h[rng.below(s as u64) as usize],                       // forced duplicate
                            2 => model::word(rng.below(52) as u8) ^ (1 << rng.below(32)),        // near-miss word
                            _ => model::word(rng.below(52) as u8),
                        };
                    }
                    check_hand(st, &h[..n]);
                    if it < 100_000 / 64 {
                        st.x.hashes.insert(drive::hash_words(&h[..n]) ^ n as u64);
                    }
                    if st.rep.want_sample() && it % 5003 == 11 && n == 5 {
                        st.rep.sample(format!("from_five({:08X?}) = {:#018x}", &h[..n], build_from(&h[..n])));
                    }
                }
            }
        }
    });
    let (rh, xh) = merge_states(sh);
    rep.merge(rh);

    // ---- set algebra and peel histories -------------------------------------------------------
    let all = <u64 as BC64>::ALL;
    let overflow = <u64 as BC64>::OVERFLOW;
    let mut structured: Vec<u64> = vec![0, all, overflow, all | overflow, u64::MAX, 1, 1 << 51, 1 << 52, 1 << 63, (1 << 51) | (1 << 52), CARD_MASK ^ 1, CARD_MASK ^ (1 << 51)];
    for i in 0..64 {
        structured.push(1u64 << i);
        structured.push(all & !(1u64 << i));
    }
    for &(_, _, m) in NAMED_RANK_MASKS.iter() {
        structured.push(m);
        structured.push(m | overflow);
    }
    for s in 0..4u32 {
        structured.push(((1u64 << 13) - 1) << (13 * s)); // one whole suit
    }
    structured.sort_unstable();
    structured.dedup();
    let extra_states: Vec<X>;
    // field-structured sets (repeated / cancelling / complementary / carrying nibbles, bytes and words), every set
    // within a 16-bit window, every low-prefix and high-suffix mask: count, validity, membership and the whole
    // peel sequence of each, where a set operation written word by word (per-half sums, per-byte tables,
    // smear-and-isolate tricks) goes wrong
    {
        let mut wide: Vec<u64> = drive::field_structured_u64(seed);
        for k in 0..=64u32 {
            let low = if k == 64 { u64::MAX } else { (1u64 << k) - 1 };
            wide.push(low);
            wide.push(!low);
        }
        if !ctx.smoke() {
            drive::for_each_window_value(|v| wide.push(v));
        }
        wide.sort_unstable();
        wide.dedup();
        let parts = 64usize;
        let step = if ctx.smoke() { 1009 } else { 1 };
        let sw = par_run(ctx, parts, mk, |st, pi| {
            for &s in wide.iter().skip(pi).step_by(parts * step) {
                check_peel(st, s);
                check_ops(st, s, s);
                check_ops(st, s, s & s.wrapping_sub(1)); // all but the lowest member
                check_ops(st, s, 1u64 << (s.trailing_zeros() % 64));
                st.rep.distinct += 1;
            }
        });
        let (rw, xw) = merge_states(sw);
        rep.merge(rw);
        extra_states = xw;
        rep.add("field_structured_window_and_mask_sets", wide.len() as u64);
    }
    let n_rand = 200_000 * scale;
    let chunks = 64usize;
    let sp = par_run(ctx, chunks + 1, mk, |st, ch| {
        if ch == chunks {
            for &s in &structured {
                check_peel(st, s);
                for &c in &structured {
                    check_ops(st, s, c);
                }
                st.rep.distinct += 1;
            }
            return;
        }
        let mut rng = Rng::new(seed, 0xC15_1000 + ch as u64);
        let per = if ctx.smoke() { 20 } else { n_rand / chunks };
        for it in 0..per {
            let s = random_set(&mut rng, it);
            check_peel(st, s);
            let c = match it % 4 {
                0 => 1u64 << rng.below(64),                   // a single bit
                1 => s & rng.next(),                          // a subset
                2 => random_set(&mut rng, it / 2),            // unrelated
                _ => (s & rng.next()) | (1u64 << rng.below(64)), // almost a subset
            };
            check_ops(st, s, c);
            if it < 100_000 / chunks {
                st.x.hashes.insert(s ^ 0x5555);
            }
            if st.rep.want_sample() && it % 1999 == 3 {
                let mut t = s;
                let mut seq = Vec::new();
                for _ in 0..4 {
                    seq.push(format!("{:#x}", t.peel()));
                }
                st.rep.sample(format!("peel history of {:#018x} starts {:?}", s, seq));
            }
        }
    });
    let (rp, xp) = merge_states(sp);
    rep.merge(rp);

    // ---- text -> set ------------------------------------------------------------------------------
    {
        let mut st = St { rep: Rep::new(), x: mk(), cur: [0; 8], cur_len: 0, cur_what: "" };
        let mut rng = Rng::new(seed, 0xC15_2000);
        let n = ctx.pick(50, 50_000, 500_000);
        for _ in 0..n {
            let k = rng.below(9);
            let mut s = String::new();
            for j in 0..k {
                if j > 0 {
                    // any Unicode white-space character separates tokens
                    const WS: [char; 25] = [' ', '\t', '\n', '\u{0B}', '\u{0C}', '\r', '\u{85}', '\u{A0}', '\u{1680}', '\u{2000}', '\u{2001}', '\u{2002}', '\u{2003}', '\u{2004}', '\u{2005}', '\u{2006}', '\u{2007}', '\u{2008}', '\u{2009}', '\u{200A}', '\u{2028}', '\u{2029}', '\u{202F}', '\u{205F}', '\u{3000}'];
                    s.push(if rng.chance(1, 2) { ' ' } else { WS[rng.below(25) as usize] });
                }
                match rng.below(8) {
                    0 => s.push_str("xx"),
                    1 => s.push('A'),
                    r => {
                        s.push(model::RANK_CHARS[rng.below(13) as usize]);
                        s.push("SHDCshdc♠♥♦♣".chars().nth(rng.below(12) as usize).unwrap());
                        // a token is a card by its first two characters, whatever follows them
                        if r >= 6 {
                            s.push_str(["\u{FE0F}", ",", "xyz", "x", ",KS", "-----", "10", "\u{301}\u{301}"][rng.below(8) as usize]);
                        }
                    }
                }
            }
            check_text(&mut st, &s);
        }
        for s in ["", "AS AS AS", "A♠ K♠ Q♠ J♠ T♠", "2c 2c 3d xx 4h", "  9♣  ", "AS\u{A0}KS", "XX\u{3000}AD\u{2003}2c", "As\u{B}Ks\u{85}Qs\u{2028}Js"] {
            check_text(&mut st, s);
        }
        // texts with more tokens than there are cards: a card may first appear after any number of blanks or repeats
        let card_tok = |i: u8| format!("{}{}", model::RANK_CHARS[model::rank_of(i) as usize], ['s', 'h', 'd', 'c'][model::suit_of(i) as usize]);
        for lead in [51usize, 52, 53, 64, 200] {
            check_text(&mut st, &format!("{} 2c", vec!["xx"; lead].join(" ")));
            check_text(&mut st, &format!("{} Kh", vec!["As"; lead].join(" ")));
        }
        check_text(&mut st, &(0..52u8).map(|i| format!("{0} {0}", card_tok(i))).collect::<Vec<_>>().join(" "));
        check_text(&mut st, &(0..52u8).map(|i| format!("zz {}", card_tok(i))).collect::<Vec<_>>().join(" "));
        for _ in 0..ctx.pick(2, 200, 2000) {
            let k = 40 + rng.below(200);
            let mut v: Vec<String> = Vec::new();
            for _ in 0..k {
                v.push(if rng.chance(1, 3) { "??".to_string() } else { card_tok(rng.below(52) as u8) });
            }
            check_text(&mut st, &v.join(" "));
        }
        let x = st.x;
        rep.merge(st.rep);
        rep.add("texts_converted_to_sets", x.texts);
    }

    let mut acc = mk();
    for x in xh.into_iter().chain(xp).chain(extra_states) {
        for k in 0..8 {
            acc.hands[k] += x.hands[k];
        }
        acc.histories += x.histories;
        acc.peel_events += x.peel_events;
        acc.with_overflow += x.with_overflow;
        acc.longest = acc.longest.max(x.longest);
        acc.set_ops += x.set_ops;
        acc.hashes.extend(x.hashes);
    }
    rep.distinct += acc.hashes.len() as u64;
    for n in 2..=7 {
        rep.add(&format!("size{}.hands_converted_to_sets", n), acc.hands[n]);
    }
    rep.add("peel_histories_run_to_exhaustion", acc.histories);
    rep.add("peel_events", acc.peel_events);
    rep.add("histories_starting_with_overflow_bits", acc.with_overflow);
    rep.add("max.longest_history(cards peeled)", acc.longest);
    rep.add("set_operation_pairs", acc.set_ops);
    rep.add("structured_sets", structured.len() as u64);
    if !ctx.smoke() {
        for n in 2..=7 {
            rep.floor(&format!("hands of size {}", n), acc.hands[n], 2000);
        }
        rep.floor("peel histories", acc.histories, 100_000);
        rep.floor("longest history", acc.longest, 52);
        rep.floor("histories with overflow bits", acc.with_overflow, 1000);
    }
    rep.exhaustive = Some(false);
    rep.rule = "every ordered hand over {52 cards, blank} for sizes 2 and 3 and seeded hands (with blanks, forced duplicates and near-miss words) for sizes 4..7 through from_two..from_seven; \
                a structured family of sets (empty, full, overflow, singletons, co-singletons, rank groups, suits, boundary bits) pairwise through fold_in/has/count/validity, plus seeded sets \
                of every population count; every set peeled to exhaustion + 3 extra calls against a bit-arithmetic model; seeded texts through from_index. \
                distinct = enumerated hands + structured sets + hash-set count of a bounded prefix of the seeded cases"
        .to_string();
    rep
}

pub fn replay(_ctx: &Ctx, inp: &Input, _clause: &str) -> Rep {
    let mut rep = Rep::new();
    let mut st = St { rep: Rep::new(), x: mk(), cur: [0; 8], cur_len: 0, cur_what: "" };
    let r = drive::guard(|| match inp {
        Input::Words(w) if (2..=7).contains(&w.len()) => check_hand(&mut st, w),
        Input::U64s(v) if v.len() == 1 => check_peel(&mut st, v[0]),
        Input::U64s(v) if v.len() == 2 => check_ops(&mut st, v[0], v[1]),
        Input::Text(s) => check_text(&mut st, s),
        _ => bad_replay(&mut st.rep, "C15 wants words (a hand), u64s (one set = peel history, two = set ops) or text"),
    });
    if let Err(msg) = r {
        st.rep.violation("panic", "BinaryCard", inp.clone(), "normal return".into(), msg);
    }
    st.rep.distinct = 1;
    rep.merge(st.rep);
    rep
}
