//! C11 — numeric card order is rank-then-suit; sorting is a descending rearrangement.

use crate::common::{Ctx, Input, Rep};
use crate::drive::{self, merge_states, par_run, Rng, St};
use crate::model;
use crate::props::named::NAMED_WORDS;
use crate::props::{bad_replay, crate_sort, crate_sort_both};
use ckc_rs::deck::POKER_DECK;

#[derive(Default)]
pub struct X {
    with_dupes: u64,
    already_sorted: u64,
    reverse_sorted: u64,
    sizes: [u64; 8],
    near_equal: u64,
    hashes: std::collections::HashSet<u64>,
}

fn mk() -> X {
    X::default()
}

const SIZE: [&str; 8] = ["", "", "Two", "Three", "Four", "Five", "Six", "Seven"];

/// the per-hand sorting checker (any words)
fn check_sort(st: &mut St<X>, w: &[u32]) {
    let n = w.len();
    st.flight("sort / sort_in_place", w);
    let (sorted, receiver_after, in_place) = crate_sort_both(w);
    st.rep.evaluations += 2;
    st.x.sizes[n] += 1;
    // harness's own insertion sort, descending
    let mut want = w.to_vec();
    for i in 1..n {
        let mut j = i;
        while j > 0 && want[j - 1] < want[j] {
            want.swap(j - 1, j);
            j -= 1;
        }
    }
    if want.windows(2).any(|p| p[0] == p[1]) {
        st.x.with_dupes += 1;
    }
    if w == &want[..] {
        st.x.already_sorted += 1;
    }
    if w.iter().rev().copied().eq(want.iter().copied()) {
        st.x.reverse_sorted += 1;
    }
    let inp = || Input::Words(w.to_vec());
    if sorted.windows(2).any(|p| p[0] < p[1]) {
        st.rep.violation("sort() returns the words in non-increasing order", &format!("{}::sort", SIZE[n]), inp(), format!("{:08X?}", want), format!("{:08X?}", sorted));
    }
    if sorted != want {
        // same multiset in non-increasing order is unique, so any difference is a lost/duplicated word or a mis-order
        st.rep.violation("sort() returns the same multiset of words", &format!("{}::sort", SIZE[n]), inp(), format!("{:08X?}", want), format!("{:08X?}", sorted));
    }
    if receiver_after != w {
        st.rep.violation("the copying sort leaves its receiver unchanged", &format!("{}::sort", SIZE[n]), inp(), format!("{:08X?}", w), format!("{:08X?}", receiver_after));
    }
    if in_place != sorted {
        st.rep.violation("the copying and the in-place forms agree", &format!("{}::sort_in_place", SIZE[n]), inp(), format!("{:08X?}", sorted), format!("{:08X?}", in_place));
    }
    let twice = crate_sort(&sorted);
    st.rep.evaluations += 1;
    if twice != sorted {
        st.rep.violation("sorting is idempotent", &format!("{}::sort", SIZE[n]), inp(), format!("{:08X?}", sorted), format!("{:08X?}", twice));
    }
}

fn check_card_order(rep: &mut Rep) {
    // the crate's own card words, through the named constants and through the deck
    let deck = POKER_DECK.arr();
    let mut words = [0u32; 52];
    for &(_, r, s, w) in NAMED_WORDS.iter() {
        words[model::idx(r, s) as usize] = w;
    }
    for src in 0..2 {
        let ws: &[u32] = if src == 0 { &words } else { &deck };
        let entry = if src == 0 { "integer order of CardNumber::* constants" } else { "integer order of POKER_DECK words" };
        for a in 0..52u8 {
            rep.evaluations += 1;
            if !(ws[a as usize] > 0) {
                rep.violation("blank is below every card", entry, Input::Idx(vec![a]), "> 0".into(), format!("{}", ws[a as usize]));
            }
            for b in 0..52u8 {
                rep.evaluations += 1;
                rep.distinct += 1;
                // rank first (ace high), then spades > hearts > diamonds > clubs
                let ka = (model::rank_of(a), 3 - model::suit_of(a));
                let kb = (model::rank_of(b), 3 - model::suit_of(b));
                let want = ka.cmp(&kb);
                let got = ws[a as usize].cmp(&ws[b as usize]);
                if got != want {
                    rep.violation(
                        "comparing two card words as integers compares rank first, then suit S > H > D > C",
                        entry,
                        Input::Idx(vec![a, b]),
                        format!("{:?}", want),
                        format!("{:?} ({:#010x} vs {:#010x})", got, ws[a as usize], ws[b as usize]),
                    );
                }
            }
        }
    }
}

pub fn run(ctx: &Ctx) -> Rep {
    let mut rep = Rep::new();
    let seed = ctx.seed;
    check_card_order(&mut rep);

    // ---- all arrangements over a small hostile alphabet -----------------------------
    let alphabet: [u32; 8] = [
        0,
        1,
        model::word(model::idx(9, 0)),              // jack of spades
        model::word(model::idx(9, 3)),              // jack of clubs (same rank)
        model::word(model::idx(4, 1)) | (1 << 30),  // a card flagged as trips
        0x7FFF_FFFF,
        0x8000_0000,
        0xFFFF_FFFF,
    ];
    let max_n = ctx.pick(3, 7, 7) as usize;
    let mut units: Vec<(usize, u32)> = Vec::new();
    for n in 2..=max_n {
        for first in 0..8u32 {
            units.push((n, first));
        }
    }
    let sa = par_run(ctx, units.len(), mk, |st, ui| {
        let (n, first) = units[ui];
        let total = 8u64.pow((n - 1) as u32);
        let mut h = [0u32; 7];
        h[0] = alphabet[first as usize];
        for mut code in 0..total {
            for s in 1..n {
                h[s] = alphabet[(code % 8) as usize];
                code /= 8;
            }
            check_sort(st, &h[..n]);
            st.rep.distinct += 1;
        }
    });
    let (ra, xa) = merge_states(sa);
    rep.merge(ra);

    // ---- near-equal words -----------------------------------------------------------------------------------
    // Pairs of words that differ in exactly one or two bits (all 528 masks), for a family of base words, placed
    // in two seeded slots of a hand whose other slots hold copies and seeded words: what a comparison that reads
    // the word field by field (and skips or reorders some bits) gets wrong, and random words almost never exercise.
    let mut bases: Vec<u32> = vec![0, 0xFFFF_FFFF, 0x8000_0000, 0x7FFF_FFFF, 0x0000_FFFF, 0xFFFF_0000, 0x5555_5555];
    bases.extend((0..52u8).step_by(if ctx.smoke() { 13 } else { 1 }).map(model::word));
    {
        let mut rng = Rng::new(seed, 0xC11_0B00);
        for _ in 0..ctx.pick(2, 40, 400) {
            bases.push(rng.u32());
        }
    }
    let sn = par_run(ctx, bases.len(), mk, |st, bi| {
        let base = bases[bi];
        let mut rng = Rng::new(seed, 0xC11_0C00 + bi as u64);
        for a in 0..32u32 {
            for b in a..32u32 {
                if ctx.smoke() && (b != a || a % 4 != 0 || bi % 3 != 0) {
                    continue; // smoke: a thin slice (the interpreter is ~1000x slower)
                }
                let mask = (1u32 << a) | (1u32 << b);
                let (x, y) = (base, base ^ mask);
                for n in 2..=7usize {
                    let mut h = [0u32; 7];
                    for s in 0..n {
                        h[s] = match rng.below(4) {
                            0 => x,
                            1 => y,
                            2 => base ^ (1u32 << rng.below(32)),
                            _ => rng.u32(),
                        };
                    }
                    let i = rng.below(n as u64) as usize;
                    let mut j = rng.below(n as u64) as usize;
                    if j == i {
                        j = (i + 1) % n;
                    }
                    h[i] = x;
                    h[j] = y;
                    check_sort(st, &h[..n]);
                    st.x.near_equal += 1;
                }
            }
        }
    });
    let (rn, xn) = merge_states(sn);
    rep.merge(rn);

    // ---- field-structured neighbours ------------------------------------------------------------------------
    // every card with each of its 3,456 field-structured variants (model::field_variants), as a pair in both
    // orders and inside hands of every size
    let card_ids: Vec<u8> = (0..52u8).step_by(if ctx.smoke() { 26 } else { 1 }).collect();
    let sf = par_run(ctx, card_ids.len(), mk, |st, ci| {
        let base = model::word(card_ids[ci]);
        let mut rng = Rng::new(seed, 0xC11_0D00 + ci as u64);
        for (k, v) in model::field_variants(base).into_iter().enumerate() {
            if ctx.smoke() && k % 97 != 0 {
                continue;
            }
            check_sort(st, &[base, v]);
            check_sort(st, &[v, base]);
            let n = 3 + (k % 5);
            let mut h = [0u32; 7];
            for s in 0..n {
                h[s] = match rng.below(3) {
                    0 => base,
                    1 => v,
                    _ => model::word(rng.below(52) as u8),
                };
            }
            h[rng.below(n as u64) as usize] = v;
            check_sort(st, &h[..n]);
            st.x.near_equal += 3;
        }
    });
    let (rf, xf) = merge_states(sf);
    rep.merge(rf);

    // ---- seeded hands: arbitrary words, card-or-blank, near-sorted ---------------------
    let per_size = ctx.pick(300, 1_000_000, 20_000_000) as usize;
    let chunks = 64usize;
    let ss = par_run(ctx, chunks, mk, |st, ch| {
        let mut rng = Rng::new(seed, 0xC11_0000 + ch as u64);
        for it in 0..(per_size / chunks) {
            for n in 2..=7usize {
                let mut h = [0u32; 7];
                // arbitrary words (with a bias to few distinct values)
                let few = rng.chance(1, 4);
                for s in 0..n {
                    h[s] = if few && s > 0 && rng.chance(1, 2) { h[rng.below(s as u64) as usize] } else { rng.u32() };
                }
                check_sort(st, &h[..n]);
                if it < 200_000 / chunks {
                    st.x.hashes.insert(drive::hash_words(&h[..n]) ^ n as u64);
                }
                // card-or-blank words
                for s in 0..n {
                    h[s] = model::word(rng.below(53) as u8);
                }
                check_sort(st, &h[..n]);
                if it < 200_000 / chunks {
                    st.x.hashes.insert(drive::hash_words(&h[..n]) ^ n as u64);
                }
                if st.rep.want_sample() && it % 4001 == 17 && n == 5 {
                    st.rep.sample(format!("sort({:08X?}) = {:08X?}", &h[..n], crate_sort(&h[..n])));
                }
            }
        }
    });
    let (rs, xs) = merge_states(ss);
    rep.merge(rs);

    let mut acc = mk();
    for x in xa.into_iter().chain(xn).chain(xf).chain(xs) {
        acc.near_equal += x.near_equal;
        acc.with_dupes += x.with_dupes;
        acc.already_sorted += x.already_sorted;
        acc.reverse_sorted += x.reverse_sorted;
        for k in 0..8 {
            acc.sizes[k] += x.sizes[k];
        }
        acc.hashes.extend(x.hashes);
    }
    rep.distinct += acc.hashes.len() as u64;
    rep.add("hands_with_duplicate_words", acc.with_dupes);
    rep.add("hands_already_sorted", acc.already_sorted);
    rep.add("hands_holding_two_words_that_differ_in_one_or_two_bits", acc.near_equal);
    rep.add("hands_reverse_sorted", acc.reverse_sorted);
    for n in 2..=7 {
        rep.add(&format!("size{}.hands_sorted", n), acc.sizes[n]);
    }
    rep.add("card_pairs_compared", 52 * 52 * 2);
    if !ctx.smoke() {
        for n in 2..=7 {
            rep.floor(&format!("hands of size {}", n), acc.sizes[n], 100_000);
        }
        rep.floor("hands with duplicates", acc.with_dupes, 10_000);
        rep.floor("hands already sorted", acc.already_sorted, 1_000);
    }
    rep.exhaustive = Some(false);
    rep.rule = format!(
        "all 52 x 52 card pairs (constants and deck); every arrangement of sizes 2..{} over an 8-word alphabet \
         {{0, 1, two jacks, a flagged card, 0x7FFFFFFF, 0x80000000, 0xFFFFFFFF}}; for ~100 base words (all cards, extremes, seeded) every pair differing in one or two bits inside hands of every size; every card paired with each of its 3,456 field-structured variants; {} seeded arbitrary-word and {} seeded card-or-blank hands per size 2..7. \
         distinct = arrangements enumerated + hash-set count of (a bounded prefix of) the seeded hands; a hand is non-trivial always (the oracle is an independent insertion sort)",
        max_n, per_size, per_size
    );
    rep
}

pub fn replay(_ctx: &Ctx, inp: &Input, _clause: &str) -> Rep {
    let mut rep = Rep::new();
    let mut st = St { rep: Rep::new(), x: mk(), cur: [0; 8], cur_len: 0, cur_what: "" };
    let r = drive::guard(|| match inp {
        Input::Words(w) if (2..=7).contains(&w.len()) => check_sort(&mut st, w),
        Input::Idx(_) => check_card_order(&mut st.rep),
        _ => bad_replay(&mut st.rep, "C11 wants words: 2..7 words, or idx: a card pair"),
    });
    if let Err(msg) = r {
        st.rep.violation("panic", "sort", inp.clone(), "normal return".into(), msg);
    }
    st.rep.distinct = st.rep.distinct.max(1);
    rep.merge(st.rep);
    rep
}
