//! C05 — ranking never panics on card-or-blank hands; a blank five is Invalid.
//!
//! Refuted by: a hand over {52 cards, blank} (any repetition) and a ranking
//! entry point of Five/Six/Seven that unwinds or hangs, in either build profile;
//! a key on which Five::find_in_products unwinds or hangs; a five-slot hand
//! containing a blank whose value != 0 or whose rank name != Invalid.
//! Nothing is asserted about the value of blank-free hands with repeated cards,
//! nor of six/seven-slot hands with blanks.

use crate::common::{Ctx, Input, Rep};
use crate::drive::{self, guard, merge_states, panic_class, par_multisets, par_run, permuted, Rng, St};
use crate::model;
use crate::props::{bad_replay, words_of};
use ckc_rs::cards::five::Five;
use ckc_rs::cards::seven::Seven;
use ckc_rs::cards::six::Six;
use ckc_rs::cards::HandRanker;
use ckc_rs::hand_rank::HandRankName;
use std::collections::BTreeMap;
use std::sync::atomic::{AtomicBool, AtomicU64, Ordering};

// ---------------------------------------------------------------------------
// Hang watchdog. Workers publish the case in flight and bump a beat counter
// around every call into the crate. The watchdog thread declares a *suspect*
// when a worker is inside a call and its beat has not moved for HANG_SECS
// (normal latency is below a microsecond). It writes the suspect to the file
// named by CKCMON_HANG_FILE and exits with status 3. The orchestrator re-runs
// that single case alone; only if the single call does not return is it a verdict.

const MAX_WORKERS: usize = 64;
const HANG_SECS: u64 = 90;
static BEAT: [AtomicU64; MAX_WORKERS] = [const { AtomicU64::new(0) }; MAX_WORKERS];
static INCALL: [AtomicBool; MAX_WORKERS] = [const { AtomicBool::new(false) }; MAX_WORKERS];
static FLIGHT_KIND: [AtomicU64; MAX_WORKERS] = [const { AtomicU64::new(0) }; MAX_WORKERS]; // 0 none, 1 key, n>=5 hand of n slots
static FLIGHT: [[AtomicU64; 7]; MAX_WORKERS] = [const { [const { AtomicU64::new(0) }; 7] }; MAX_WORKERS];
static NEXT_WORKER: AtomicU64 = AtomicU64::new(0);
static STOP: AtomicBool = AtomicBool::new(false);

thread_local! {
    static WORKER: usize = (NEXT_WORKER.fetch_add(1, Ordering::Relaxed) as usize) % MAX_WORKERS;
}

#[inline]
fn enter_key(k: usize) -> usize {
    let w = WORKER.with(|w| *w);
    FLIGHT_KIND[w].store(1, Ordering::Relaxed);
    FLIGHT[w][0].store(k as u64, Ordering::Relaxed);
    BEAT[w].fetch_add(1, Ordering::Relaxed);
    INCALL[w].store(true, Ordering::Release);
    w
}

#[inline]
fn enter_hand(c: &[u8]) -> usize {
    let w = WORKER.with(|w| *w);
    FLIGHT_KIND[w].store(c.len() as u64, Ordering::Relaxed);
    for (i, &x) in c.iter().enumerate() {
        FLIGHT[w][i].store(x as u64, Ordering::Relaxed);
    }
    BEAT[w].fetch_add(1, Ordering::Relaxed);
    INCALL[w].store(true, Ordering::Release);
    w
}

#[inline]
fn leave(w: usize) {
    INCALL[w].store(false, Ordering::Release);
    BEAT[w].fetch_add(1, Ordering::Relaxed);
}

fn start_watchdog() -> std::thread::JoinHandle<()> {
    STOP.store(false, Ordering::SeqCst);
    std::thread::spawn(|| {
        let mut last = [0u64; MAX_WORKERS];
        let mut frozen = [0u64; MAX_WORKERS];
        loop {
            for _ in 0..10 {
                std::thread::sleep(std::time::Duration::from_millis(100));
                if STOP.load(Ordering::SeqCst) {
                    return;
                }
            }
            for w in 0..MAX_WORKERS {
                let b = BEAT[w].load(Ordering::Relaxed);
                if INCALL[w].load(Ordering::Acquire) && b == last[w] {
                    frozen[w] += 1;
                } else {
                    frozen[w] = 0;
                }
                last[w] = b;
                if frozen[w] >= HANG_SECS {
                    let kind = FLIGHT_KIND[w].load(Ordering::Relaxed);
                    let (k, d) = if kind == 1 {
                        ("u64s".to_string(), format!("0x{:016X}", FLIGHT[w][0].load(Ordering::Relaxed)))
                    } else {
                        let v: Vec<String> = (0..kind as usize).map(|i| FLIGHT[w][i].load(Ordering::Relaxed).to_string()).collect();
                        ("idx".to_string(), v.join(","))
                    };
                    let path = std::env::var("CKCMON_HANG_FILE").unwrap_or_else(|_| "ckcmon.hang".to_string());
                    let _ = std::fs::write(&path, format!("{}\n{}\n", k, d));
                    eprintln!("ckcmon: HANG-SUSPECT kind={} data={} (no return for {} s)", k, d, HANG_SECS);
                    std::process::exit(3);
                }
            }
        }
    })
}

// ---------------------------------------------------------------------------

#[derive(Default)]
pub struct X {
    hands: [u64; 8],
    with_blank: [u64; 8],
    with_repeat: [u64; 8],
    panics: u64,
    panic_classes: BTreeMap<String, u64>,
    fip_calls: u64,
    fip_nonzero: u64,
    fip_distinct: Vec<u64>, // bitmap over 0..8192
    key_min: u64,
    key_max: u64,
    blank_fives: u64,
}

fn mk() -> X {
    X { fip_distinct: vec![0; 128], key_min: u64::MAX, ..Default::default() }
}

#[cold]
#[inline(never)]
fn record_panic(st: &mut St<X>, entry: &str, input: Input, msg: String) {
    st.x.panics += 1;
    *st.x.panic_classes.entry(panic_class(&msg)).or_insert(0) += 1;
    st.rep.violation("ranking returns normally (no panic)", entry, input, "normal return".into(), format!("panicked: {}", msg));
}

const E5: [&str; 5] = [
    "Five::hand_rank_value",
    "Five::hand_rank",
    "Five::hand_rank_value_and_hand",
    "Five::hand_rank_value_validated",
    "Five::hand_rank_validated",
];
const E6: [&str; 5] = [
    "Six::hand_rank_value",
    "Six::hand_rank",
    "Six::hand_rank_value_and_hand",
    "Six::hand_rank_value_validated",
    "Six::hand_rank_validated",
];
const E7: [&str; 5] = [
    "Seven::hand_rank_value",
    "Seven::hand_rank",
    "Seven::hand_rank_value_and_hand",
    "Seven::hand_rank_value_validated",
    "Seven::hand_rank_validated",
];

/// run the five entry points of one ranker, each under its own guard
macro_rules! five_entries {
    ($st:expr, $h:expr, $names:expr, $c:expr, $blank_rule:expr) => {{
        let h = $h;
        let r0 = guard(|| h.hand_rank_value());
        let r1 = guard(|| h.hand_rank());
        let r2 = guard(|| h.hand_rank_value_and_hand().0);
        let r3 = guard(|| h.hand_rank_value_validated());
        let r4 = guard(|| h.hand_rank_validated());
        $st.rep.evaluations += 5;
        let mut vals: [Option<(u16, Option<HandRankName>)>; 5] = [None; 5];
        match r0 { Ok(v) => vals[0] = Some((v, None)), Err(m) => record_panic($st, $names[0], Input::Idx($c.to_vec()), m) }
        match r1 { Ok(r) => vals[1] = Some((r.value, Some(r.name))), Err(m) => record_panic($st, $names[1], Input::Idx($c.to_vec()), m) }
        match r2 { Ok(v) => vals[2] = Some((v, None)), Err(m) => record_panic($st, $names[2], Input::Idx($c.to_vec()), m) }
        match r3 { Ok(v) => vals[3] = Some((v, None)), Err(m) => record_panic($st, $names[3], Input::Idx($c.to_vec()), m) }
        match r4 { Ok(r) => vals[4] = Some((r.value, Some(r.name))), Err(m) => record_panic($st, $names[4], Input::Idx($c.to_vec()), m) }
        if $blank_rule {
            for k in 0..5 {
                if let Some((v, name)) = vals[k] {
                    if v != 0 || name.map_or(false, |n| n != HandRankName::Invalid) {
                        $st.rep.violation(
                            "a five-slot hand containing a blank has value 0 and rank Invalid",
                            $names[k],
                            Input::Idx($c.to_vec()),
                            "value 0 / Invalid".into(),
                            format!("value {} / {:?}", v, name),
                        );
                    }
                }
            }
        }
    }};
}

fn classify(st: &mut St<X>, c: &[u8]) -> bool {
    let n = c.len();
    st.x.hands[n] += 1;
    let has_blank = c.iter().any(|&i| i >= 52);
    if has_blank {
        st.x.with_blank[n] += 1;
    }
    let mut s = c.to_vec();
    s.sort_unstable();
    if s.windows(2).any(|w| w[0] == w[1] && w[0] < 52) {
        st.x.with_repeat[n] += 1;
    }
    has_blank
}

pub fn check5(st: &mut St<X>, c: &[u8; 5]) {
    let has_blank = classify(st, c);
    let w = words_of(c);
    let t = enter_hand(c);
    five_entries!(st, Five::from(w), E5, c, has_blank);
    leave(t);
    if has_blank {
        st.x.blank_fives += 1;
    }
}

pub fn check6(st: &mut St<X>, c: &[u8; 6]) {
    classify(st, c);
    let w = words_of(c);
    let t = enter_hand(c);
    five_entries!(st, Six::from(w), E6, c, false);
    leave(t);
}

pub fn check7(st: &mut St<X>, c: &[u8; 7]) {
    classify(st, c);
    let w = words_of(c);
    let t = enter_hand(c);
    five_entries!(st, Seven::from(w), E7, c, false);
    leave(t);
}

#[inline]
pub fn check_key(st: &mut St<X>, k: usize) {
    let t = enter_key(k);
    let r = guard(|| Five::find_in_products(k));
    leave(t);
    st.rep.evaluations += 1;
    st.x.fip_calls += 1;
    st.x.key_min = st.x.key_min.min(k as u64);
    st.x.key_max = st.x.key_max.max(k as u64);
    match r {
        Ok(i) => {
            if i != 0 {
                st.x.fip_nonzero += 1;
            }
            if i < 8192 {
                st.x.fip_distinct[i / 64] |= 1 << (i % 64);
            } else {
                // an index outside any plausible table: not a clause of C05 by itself, but worth seeing
                st.rep.add("find_in_products_results_above_8191", 1);
            }
        }
        Err(m) => record_panic(st, "Five::find_in_products", Input::U64s(vec![k as u64]), m),
    }
}

/// products of the rank primes of every 5-multiset of ranks (model-generated; includes
/// the five-distinct and five-equal ones, which are not in the crate's table)
fn model_products() -> Vec<u64> {
    let mut v = Vec::new();
    for a in 0..13 {
        for b in a..13 {
            for c in b..13 {
                for d in c..13 {
                    for e in d..13 {
                        v.push([a, b, c, d, e].iter().map(|&r| model::PRIMES[r] as u64).product());
                    }
                }
            }
        }
    }
    v.sort_unstable();
    v.dedup();
    v
}

pub fn run(ctx: &Ctx) -> Rep {
    let mut rep = Rep::new();
    let seed = ctx.seed;
    let smoke = ctx.smoke();
    if smoke {
        return run_smoke(ctx);
    }
    let wd = start_watchdog();
    let us = if smoke { 211 } else { 1 };

    // ---- five-slot multisets over {52 cards, blank} -------------------------
    let s5 = par_multisets::<5, X, _, _>(ctx, 53, us, mk, |st, c, _| {
        st.rep.distinct += 1;
        check5(st, c);
        let mut rng = Rng::new(seed, drive::hand_code(c) ^ 0x5555);
        for _ in 0..2 {
            let p = permuted(c, &mut rng);
            check5(st, &p);
        }
        if st.rep.want_sample() && drive::selected(c, seed, 0x5a, 700_001) {
            let r = guard(|| Five::from(words_of(c)).hand_rank());
            st.rep.sample(format!("five {} -> {:?}", model::hand_name(c), r.map(|r| (r.value, r.name))));
        }
    });
    let (r5, x5) = merge_states(s5);
    let n5 = r5.distinct;
    rep.merge(r5);

    // ---- ordered five-slot arrays (thorough): all 53^5 ------------------------
    let mut n5_ordered = 0;
    let mut xo = Vec::new();
    if ctx.thorough() {
        let units: Vec<(u8, u8)> = (0..53u8).flat_map(|a| (0..53u8).map(move |b| (a, b))).collect();
        let so = par_run(ctx, units.len(), mk, |st, ui| {
            let (a, b) = units[ui];
            for c3 in 0..53u8 {
                for d in 0..53u8 {
                    for e in 0..53u8 {
                        st.rep.distinct += 1;
                        check5(st, &[a, b, c3, d, e]);
                    }
                }
            }
        });
        let (ro, x) = merge_states(so);
        n5_ordered = ro.distinct;
        let mut ro = ro;
        ro.distinct = 0; // arrangements of multisets already counted
        rep.merge(ro);
        xo = x;
    }

    // ---- six-slot multisets -------------------------------------------------------
    let s6 = par_multisets::<6, X, _, _>(ctx, 53, us, mk, |st, c, _| {
        st.rep.distinct += 1;
        check6(st, c);
        if drive::selected(c, seed, 0x66, 8) {
            let mut rng = Rng::new(seed, drive::hand_code(c) ^ 0x6666);
            let p = permuted(c, &mut rng);
            check6(st, &p);
        }
    });
    let (r6, x6) = merge_states(s6);
    let n6 = r6.distinct;
    rep.merge(r6);

    // ---- single-suit six- and seven-card hands in many slot orders ----------------------------------
    // (flush / straight-flush shortcuts are where an index computed from rank bits can leave its table; they
    // are reached only in particular arrangements, which a sorted multiset enumeration never produces)
    let ss = crate::drive::par_subsets::<6, X, _, _>(ctx, us, mk, |st, c, _| {
        if drive::max_suit_count(c) == 6 {
            for k in 0..drive::factorial(6) {
                let p = drive::nth_permutation(6, k);
                check6(st, &[c[p[0] as usize], c[p[1] as usize], c[p[2] as usize], c[p[3] as usize], c[p[4] as usize], c[p[5] as usize]]);
            }
            st.rep.add("single_suit_six_card_hands_in_every_slot_order", 1);
        }
    });
    let (rs6, xs6) = merge_states(ss);
    rep.merge(rs6);
    let ss7 = crate::drive::par_subsets::<7, X, _, _>(ctx, us, mk, |st, c, _| {
        if drive::max_suit_count(c) >= 6 && drive::selected(c, seed, 0x57, 4) {
            let mut rng = Rng::new(seed, drive::hand_code(c) ^ 0x5757);
            for _ in 0..16 {
                let p = permuted(c, &mut rng);
                check7(st, &p);
            }
            st.rep.add("six_or_seven_suited_seven_card_hands_in_16_orders", 1);
        }
    });
    let (rs7, xs7) = merge_states(ss7);
    rep.merge(rs7);

    // ---- seven-slot multisets -----------------------------------------------------
    let rate7 = ctx.pick(1, 32, 1);
    let s7 = par_multisets::<7, X, _, _>(ctx, 53, us, mk, |st, c, _| {
        if !drive::selected(c, seed, 0x77, rate7) {
            return;
        }
        st.rep.distinct += 1;
        if drive::selected(c, seed, 0x78, 2) {
            let mut rng = Rng::new(seed, drive::hand_code(c) ^ 0x7777);
            let p = permuted(c, &mut rng);
            check7(st, &p);
        } else {
            check7(st, c);
        }
    });
    let (r7, x7) = merge_states(s7);
    let n7 = r7.distinct;
    rep.merge(r7);

    // ---- the public product-search helper ---------------------------------------
    let products = model_products();
    let last = *products.last().unwrap() as usize; // 41^5 = 115,856,201 >= the last table entry
    let table_last = 104_553_157usize; // 41^4 * 37, the largest product of a hand with at most four equal ranks
    let sweep_hi = if smoke { 20_000 } else { table_last + (1 << 16) };
    let chunk = 1usize << 16;
    let nchunks = (sweep_hi + chunk) / chunk;
    let sk = par_run(ctx, nchunks + 1, mk, |st, ci| {
        if ci < nchunks {
            let lo = ci * chunk;
            let hi = ((ci + 1) * chunk).min(sweep_hi + 1);
            for k in lo..hi {
                check_key(st, k);
            }
            st.rep.distinct += (hi - lo) as u64;
        } else {
            // beyond the sweep: every model product +-1, powers of two +-1, the top of usize, seeded keys
            let mut extra: Vec<usize> = Vec::new();
            for &p in &products {
                for d in [-1i64, 0, 1] {
                    extra.push((p as i64 + d) as usize);
                }
            }
            for b in 0..64u32 {
                let p = 1u64 << b;
                extra.push(p as usize);
                extra.push(p.wrapping_sub(1) as usize);
                extra.push(p.wrapping_add(1) as usize);
            }
            for j in 0..1024usize {
                extra.push(usize::MAX - j);
            }
            extra.push(last + 1);
            let mut rng = Rng::new(seed, 0xC05_F1F0);
            for _ in 0..(if smoke { 100 } else { 2_000_000 }) {
                let bits = 1 + rng.below(64) as u32;
                extra.push((rng.next() >> (64 - bits)) as usize);
            }
            extra.sort_unstable();
            extra.dedup();
            for &k in &extra {
                if k > sweep_hi {
                    check_key(st, k);
                    st.rep.distinct += 1;
                }
            }
        }
    });
    let (rk, xk) = merge_states(sk);
    rep.merge(rk);

    STOP.store(true, Ordering::SeqCst);
    let _ = wd.join();

    let mut acc = mk();
    for x in x5.into_iter().chain(xo).chain(x6).chain(xs6).chain(xs7).chain(x7).chain(xk) {
        for k in 0..8 {
            acc.hands[k] += x.hands[k];
            acc.with_blank[k] += x.with_blank[k];
            acc.with_repeat[k] += x.with_repeat[k];
        }
        acc.panics += x.panics;
        for (k, v) in x.panic_classes {
            *acc.panic_classes.entry(k).or_insert(0) += v;
        }
        acc.fip_calls += x.fip_calls;
        acc.fip_nonzero += x.fip_nonzero;
        for (a, b) in acc.fip_distinct.iter_mut().zip(&x.fip_distinct) {
            *a |= b;
        }
        acc.key_min = acc.key_min.min(x.key_min);
        acc.key_max = acc.key_max.max(x.key_max);
        acc.blank_fives += x.blank_fives;
    }
    rep.add("five_slot_multisets", n5);
    rep.add("five_slot_ordered_arrays", n5_ordered);
    rep.add("six_slot_multisets", n6);
    rep.add("seven_slot_multisets", n7);
    for n in 5..=7 {
        rep.add(&format!("size{}.arrangements_ranked", n), acc.hands[n]);
        rep.add(&format!("size{}.with_a_blank", n), acc.with_blank[n]);
        rep.add(&format!("size{}.with_a_repeated_card", n), acc.with_repeat[n]);
    }
    rep.add("blank_five_arrangements_checked_for_0/Invalid", acc.blank_fives);
    rep.add("panics_caught", acc.panics);
    for (k, v) in &acc.panic_classes {
        rep.add(&format!("panic_class[{}]", k), *v);
    }
    rep.add("find_in_products.calls", acc.fip_calls);
    rep.add("find_in_products.nonzero_results", acc.fip_nonzero);
    rep.add("find_in_products.distinct_results", acc.fip_distinct.iter().map(|w| w.count_ones() as u64).sum());
    rep.add("find_in_products.smallest_key", if acc.key_min == u64::MAX { 0 } else { acc.key_min });
    rep.note("find_in_products.largest_key", format!("{}", acc.key_max));
    if !smoke {
        rep.floor("five-slot multisets", n5, 4_187_106);
        rep.floor("six-slot multisets", n6, 40_475_358);
        rep.floor("seven-slot multisets", n7, if rate7 == 1 { 341_149_446 } else { 341_149_446 / rate7 / 2 });
        rep.floor("find_in_products keys", acc.fip_calls, (table_last + (1 << 16)) as u64);
        rep.floor("find_in_products distinct results", acc.fip_distinct.iter().map(|w| w.count_ones() as u64).sum(), 1000);
        rep.floor("blank fives", acc.blank_fives, 300_000);
    }
    rep.exhaustive = Some(false);
    rep.rule = format!(
        "every 5-slot multiset over {{52 cards, blank}} (canonical + 2 seeded orders){}, every 6-slot multiset (+1 seeded order for 1-in-8), \
         {} 7-slot multisets, each through five ranking entry points under catch_unwind and a hang watchdog; \
         Five::find_in_products on every key 0..={} and on model products+-1, powers of two+-1, the top of usize and seeded keys; \
         distinct = multisets / keys enumerated once each; all are non-trivial (each can refute 'returns normally')",
        if ctx.thorough() { ", all 53^5 ordered arrays" } else { "" },
        if rate7 == 1 { "all".to_string() } else { format!("a seeded 1-in-{} selection of the", rate7) },
        sweep_hi
    );
    rep
}

/// Smoke workload (Miri leg): the same per-case checkers on every multiset of sizes 5..7 over a
/// five-symbol alphabet {blank, two aces, a deuce, a king} and on a few hundred keys.
fn run_smoke(_ctx: &Ctx) -> Rep {
    let mut rep = Rep::new();
    let mut st = St { rep: Rep::new(), x: mk(), cur: [0; 8], cur_len: 0, cur_what: "" };
    let alpha: [u8; 5] = [52, 0, 13, 51, 27];
    fn rec(st: &mut St<X>, alpha: &[u8; 5], cur: &mut Vec<u8>, start: usize, n: usize) {
        if cur.len() == n {
            st.rep.distinct += 1;
            match n {
                5 => check5(st, &[cur[0], cur[1], cur[2], cur[3], cur[4]]),
                6 => check6(st, &[cur[0], cur[1], cur[2], cur[3], cur[4], cur[5]]),
                _ => check7(st, &[cur[0], cur[1], cur[2], cur[3], cur[4], cur[5], cur[6]]),
            }
            return;
        }
        for i in start..5 {
            cur.push(alpha[i]);
            rec(st, alpha, cur, i, n);
            cur.pop();
        }
    }
    for n in 5..=7 {
        rec(&mut st, &alpha, &mut Vec::new(), 0, n);
    }
    for k in (0..200usize).chain([4887, 104_553_156, 104_553_157, 104_553_158, usize::MAX - 1, usize::MAX]) {
        check_key(&mut st, k);
        st.rep.distinct += 1;
    }
    rep.merge(st.rep);
    rep.add("panics_caught", st.x.panics);
    rep.add("find_in_products.calls", st.x.fip_calls);
    rep.rule = "smoke: every multiset of sizes 5..7 over {blank, As, Ah, 2c, Kd} through five entry points, ~200 product-search keys".to_string();
    rep
}

pub fn replay(_ctx: &Ctx, inp: &Input, _clause: &str) -> Rep {
    let mut rep = Rep::new();
    let mut st = St { rep: Rep::new(), x: mk(), cur: [0; 8], cur_len: 0, cur_what: "" };
    match inp {
        Input::Idx(v) if v.len() == 5 && v.iter().all(|&i| i <= 52) => check5(&mut st, &[v[0], v[1], v[2], v[3], v[4]]),
        Input::Idx(v) if v.len() == 6 && v.iter().all(|&i| i <= 52) => check6(&mut st, &[v[0], v[1], v[2], v[3], v[4], v[5]]),
        Input::Idx(v) if v.len() == 7 && v.iter().all(|&i| i <= 52) => check7(&mut st, &[v[0], v[1], v[2], v[3], v[4], v[5], v[6]]),
        Input::U64s(v) if v.len() == 1 => check_key(&mut st, v[0] as usize),
        _ => bad_replay(&mut rep, "C05 wants idx: 5..7 deck indices (52 = blank) or u64s: one key"),
    }
    st.rep.distinct = 1;
    rep.merge(st.rep);
    rep
}
