//! C04 — validated ranking yields 0 exactly for non-hands, for any 32-bit words.
//!
//! Oracle: a hand is valid iff every word is one of the 52 layout words and all
//! slots are pairwise different. Unvalidated ranking is only ever called on hands
//! the oracle says are valid (the property does not cover it on arbitrary words).

use crate::common::{Ctx, Input, Rep};
use crate::drive::{self, merge_states, par_run, par_subsets, set_partitions, Rng, St};
use crate::model;
use crate::props::{bad_replay, crate_is_valid, crate_validated, crate_validated_value, crate_value, model_card_index, model_valid, words_of};
use ckc_rs::evaluate;

#[derive(Default)]
pub struct X {
    valid: [u64; 8],
    invalid: [u64; 8],
    words_swept: u64,
    cards_recognised: u64,
    patterns: [u64; 8],
    hashes: std::collections::HashSet<u64>,
    ball_hands: u64,
    cancel_hands: u64,
}

fn mk() -> X {
    X::default()
}

/// The per-hand checker used by every workload and by replay.
#[inline]
pub fn check_hand(st: &mut St<X>, w: &[u32]) {
    check_hand_depth(st, w, true)
}

/// `full` = every validated entry point; otherwise is_valid and hand_rank_value_validated only
#[inline]
pub fn check_hand_depth(st: &mut St<X>, w: &[u32], full: bool) {
    let n = w.len();
    st.flight("is_valid / validated ranking", w);
    let ov = model_valid(w);
    let cv = crate_is_valid(w);
    st.rep.evaluations += 1;
    if ov {
        st.x.valid[n] += 1;
    } else {
        st.x.invalid[n] += 1;
    }
    if cv != ov {
        st.rep.violation(
            "is_valid() <=> every slot is one of the 52 cards and all slots differ",
            SIZES[n],
            Input::Words(w.to_vec()),
            format!("is_valid = {}", ov),
            format!("is_valid = {}", cv),
        );
    }
    if n >= 5 && !full {
        let vv = crate_validated_value(w);
        st.rep.evaluations += 1;
        if !ov {
            if vv != 0 {
                st.rep.violation(
                    "validated ranking returns 0 when the hand is not valid",
                    &format!("{}::hand_rank_value_validated", SIZES[n]),
                    Input::Words(w.to_vec()),
                    "0".into(),
                    format!("{}", vv),
                );
            }
        } else {
            let uv = crate_value(w);
            st.rep.evaluations += 1;
            if vv == 0 || vv != uv {
                st.rep.violation(
                    "validated ranking of a valid hand equals unvalidated ranking (and is not 0)",
                    &format!("{}::hand_rank_value_validated", SIZES[n]),
                    Input::Words(w.to_vec()),
                    format!("{} (unvalidated)", uv),
                    format!("{}", vv),
                );
            }
        }
    } else if n >= 5 {
        let (vv, hv) = crate_validated(w);
        st.rep.evaluations += 2;
        let mut got = [(vv, "hand_rank_value_validated"), (hv, "hand_rank_validated().value"), (0, "")];
        let mut k = 2;
        if n == 5 {
            got[2] = (evaluate::five_cards([w[0], w[1], w[2], w[3], w[4]]), "evaluate::five_cards");
            st.rep.evaluations += 1;
            k = 3;
        }
        if !ov {
            for &(v, e) in &got[..k] {
                if v != 0 {
                    st.rep.violation(
                        "validated ranking returns 0 when the hand is not valid",
                        &format!("{}::{}", SIZES[n], e),
                        Input::Words(w.to_vec()),
                        "0".into(),
                        format!("{}", v),
                    );
                }
            }
        } else {
            let uv = crate_value(w);
            st.rep.evaluations += 1;
            for &(v, e) in &got[..k] {
                if v == 0 || v != uv {
                    st.rep.violation(
                        "validated ranking of a valid hand equals unvalidated ranking (and is not 0)",
                        &format!("{}::{}", SIZES[n], e),
                        Input::Words(w.to_vec()),
                        format!("{} (unvalidated)", uv),
                        format!("{}", v),
                    );
                }
            }
        }
    }
}

const SIZES: [&str; 8] = ["", "", "Two", "Three", "Four", "Five", "Six", "Seven"];

/// near-miss words: look like cards but are not (each is verified not to be a card by the model)
fn near_miss(rng: &mut Rng) -> u32 {
    loop {
        let c = model::word(rng.below(52) as u8);
        let w = match rng.below(8) {
            0 => c ^ (1u32 << rng.below(32)),                      // one bit flipped
            1 => c | ((1 + rng.below(7) as u32) << 29),            // multiples flags set
            2 => 0xFFFF_FFFF,
            3 => 1 + rng.below(64) as u32,                         // small integers
            4 => (c & !0x3F) | rng.below(64) as u32,               // prime field replaced
            5 => (c & !0xF00) | ((rng.below(16) as u32) << 8),     // rank nibble replaced
            6 => (c & !0xF000) | ((rng.below(16) as u32) << 12),   // suit nibble replaced
            _ => c.rotate_left(1 + rng.below(31) as u32),
        };
        if model_card_index(w).is_none() && w != 0 {
            return w;
        }
    }
}

fn arbitrary(rng: &mut Rng) -> u32 {
    loop {
        let w = rng.u32();
        if model_card_index(w).is_none() && w != 0 {
            return w;
        }
    }
}

pub fn run(ctx: &Ctx) -> Rep {
    let mut rep = Rep::new();
    let seed = ctx.seed;
    // oracle self-check: the O(1) membership test agrees with the 52-word list on the list and its neighbours
    {
        let ws = model::words52();
        let mut ok = true;
        for i in 0..52u8 {
            ok &= model_card_index(ws[i as usize]) == Some(i);
            for b in 0..32 {
                ok &= model_card_index(ws[i as usize] ^ (1 << b)).is_none();
            }
        }
        ok &= model_card_index(0).is_none() && model_card_index(u32::MAX).is_none();
        rep.self_check("O(1) membership test == 52-word list (on the list and all 1-bit neighbours)", ok);
    }

    // ---- (1) every 32-bit word in one slot ---------------------------------
    // unit = one block of 2^16 words; slot positions and partner cards are seeded per block.
    // quick: every word through a Two (the hand-level recogniser) and, for a seeded 1-in-16 of the
    // blocks, through a Five with all validated entry points. thorough: every word through every slot
    // of every size (sizes 5..7: is_valid + hand_rank_value_validated; the other entry points on 1-in-16 blocks).
    // The checked leg sweeps a 1-in-16 share of the blocks (validation has no arithmetic to trap).
    let every_slot = ctx.thorough();
    let leg_stride: u32 = if ctx.leg == "checked" { 16 } else { 1 };
    let leg_off: u32 = (seed % 16) as u32;
    let blocks: Vec<u32> = if ctx.smoke() {
        vec![0, 0x1000, 0x0800, 0xFFFF]
    } else {
        (0..65536u32).filter(|b| leg_stride == 1 || b % leg_stride == leg_off).collect()
    };
    let s1 = par_run(ctx, blocks.len(), mk, |st, bi| {
        let hi = blocks[bi] << 16;
        let mut rng = Rng::new(seed, 0xC04_0000 + blocks[bi] as u64);
        // partners: distinct real cards
        let mut deck: Vec<u8> = (0..52).collect();
        rng.shuffle(&mut deck);
        let partners: Vec<u32> = deck[..6].iter().map(|&i| model::word(i)).collect();
        let slot2 = rng.below(2) as usize;
        let slot5 = rng.below(5) as usize;
        let deep_block = drive::mix(blocks[bi] as u64 ^ seed.wrapping_mul(77)) % 16 == 0;
        for lo in 0..=0xFFFFu32 {
            let w = hi | lo;
            st.x.words_swept += 1;
            if model_card_index(w).is_some() {
                st.x.cards_recognised += 1;
            }
            if every_slot {
                for n in 2..=7usize {
                    for s in 0..n {
                        let mut h = [0u32; 7];
                        let mut k = 0;
                        for j in 0..n {
                            if j == s {
                                h[j] = w;
                            } else {
                                h[j] = partners[k];
                                k += 1;
                            }
                        }
                        check_hand_depth(st, &h[..n], deep_block);
                    }
                }
            } else {
                let mut h2 = [partners[0]; 2];
                h2[slot2] = w;
                check_hand(st, &h2);
                if deep_block {
                    let mut h5 = [partners[0], partners[1], partners[2], partners[3], partners[4]];
                    h5[slot5] = w;
                    check_hand(st, &h5);
                }
            }
        }
        st.rep.distinct += 65536;
    });
    let (r1, x1) = merge_states(s1);
    rep.merge(r1);

    // ---- (1b) every word within Hamming distance 2 of a card or of blank, in every slot of every size
    let centres: Vec<u32> = (0..53u8).map(model::word).collect();
    let s1b = par_run(ctx, centres.len(), mk, |st, ci| {
        let c = centres[ci];
        let mut rng = Rng::new(seed, 0xC04_0800 + ci as u64);
        let mut deck: Vec<u8> = (0..52).collect();
        rng.shuffle(&mut deck);
        let partners: Vec<u32> = deck[..6].iter().map(|&i| model::word(i)).collect();
        let mut ball: Vec<u32> = vec![c];
        for a in 0..32 {
            ball.push(c ^ (1 << a));
            if !ctx.smoke() {
                for b in (a + 1)..32 {
                    ball.push(c ^ (1 << a) ^ (1 << b));
                }
            }
        }
        for &w in &ball {
            for n in 2..=7usize {
                for s in 0..n {
                    let mut h = [0u32; 7];
                    let mut k = 0;
                    for j in 0..n {
                        if j == s {
                            h[j] = w;
                        } else {
                            h[j] = partners[k];
                            k += 1;
                        }
                    }
                    check_hand(st, &h[..n]);
                    st.x.ball_hands += 1;
                }
            }
        }
    });
    let (r1b, x1b) = merge_states(s1b);
    rep.merge(r1b);

    // ---- (1c) field-structured variants of every card (several fields wrong at once) in a seeded slot of every size
    let s1c = par_run(ctx, 52, mk, |st, ci| {
        if ctx.smoke() && ci % 26 != 0 {
            return;
        }
        let base = model::word(ci as u8);
        let mut rng = Rng::new(seed, 0xC04_0900 + ci as u64);
        let mut deck: Vec<u8> = (0..52).filter(|&i| i != ci as u8).collect();
        rng.shuffle(&mut deck);
        let partners: Vec<u32> = deck[..6].iter().map(|&i| model::word(i)).collect();
        for (k, v) in model::field_variants(base).into_iter().enumerate() {
            if ctx.smoke() && k % 97 != 0 {
                continue;
            }
            for n in 2..=7usize {
                let s = rng.below(n as u64) as usize;
                let mut h = [0u32; 7];
                let mut kk = 0;
                for j in 0..n {
                    if j == s {
                        h[j] = v;
                    } else {
                        h[j] = partners[kk];
                        kk += 1;
                    }
                }
                check_hand(st, &h[..n]);
                st.x.ball_hands += 1;
            }
        }
    });
    let (r1c, x1c) = merge_states(s1c);
    rep.merge(r1c);

    // ---- (2) every equality pattern of the slots x every class mix ----------
    let k_inst = ctx.pick(1, 2, 16);
    let mut jobs: Vec<(usize, Vec<u8>)> = Vec::new();
    for n in 2..=7usize {
        for p in set_partitions(n) {
            jobs.push((n, p));
        }
    }
    let s2 = par_run(ctx, jobs.len(), mk, |st, ji| {
        let (n, part) = &jobs[ji];
        let n = *n;
        let nb = *part.iter().max().unwrap() as usize + 1;
        let mut rng = Rng::new(seed, 0xC04_1000 + ji as u64);
        // classes per block: 0 real card, 1 blank, 2 near-miss, 3 arbitrary
        let combos = 4u32.pow(nb as u32);
        for combo in 0..combos {
            for _ in 0..k_inst {
                let mut block_word = [0u32; 7];
                let mut used: Vec<u32> = Vec::new();
                let mut blanks = 0;
                let mut possible = true;
                for b in 0..nb {
                    let class = (combo >> (2 * b)) & 3;
                    let mut tries = 0;
                    loop {
                        let w = match class {
                            0 => model::word(rng.below(52) as u8),
                            1 => 0,
                            2 => near_miss(&mut rng),
                            _ => arbitrary(&mut rng),
                        };
                        if class == 1 {
                            blanks += 1;
                            if blanks > 1 {
                                possible = false; // two different blocks cannot both be blank
                            }
                            block_word[b] = 0;
                            break;
                        }
                        if !used.contains(&w) {
                            used.push(w);
                            block_word[b] = w;
                            break;
                        }
                        tries += 1;
                        if tries > 100 {
                            possible = false;
                            break;
                        }
                    }
                }
                if !possible {
                    continue;
                }
                let mut h = [0u32; 7];
                for s in 0..n {
                    h[s] = block_word[part[s] as usize];
                }
                check_hand(st, &h[..n]);
                st.x.patterns[n] += 1;
                st.x.hashes.insert(drive::hash_words(&h[..n]) ^ n as u64);
                if st.rep.want_sample() && (combo as usize + ji) % 7919 == 3 {
                    st.rep.sample(format!(
                        "{} slots, equality pattern {:?}, words {:08X?} -> crate is_valid {} / oracle {}",
                        n,
                        part,
                        &h[..n],
                        crate_is_valid(&h[..n]),
                        model_valid(&h[..n])
                    ));
                }
            }
        }
    });
    let (r2, x2) = merge_states(s2);
    rep.merge(r2);

    // ---- (2b) all-card patterns with the repeated card at every rank position ------------------
    // Uniqueness tests that sort first can go wrong only for a duplicate at one end of the sorted hand:
    // for every set partition and every block, that block in turn gets the numerically smallest and
    // the numerically largest card of the hand (all blocks real cards).
    let s2b = par_run(ctx, jobs.len(), mk, |st, ji| {
        let (n, part) = &jobs[ji];
        let n = *n;
        let nb = *part.iter().max().unwrap() as usize + 1;
        let mut rng = Rng::new(seed, 0xC04_1800 + ji as u64);
        for b in 0..nb {
            for extreme in 0..2 {
                for _ in 0..k_inst {
                    // nb distinct cards, sorted by word
                    let mut deck: Vec<u8> = (0..52).collect();
                    rng.shuffle(&mut deck);
                    let mut ws: Vec<u32> = deck[..nb].iter().map(|&i| model::word(i)).collect();
                    ws.sort_unstable();
                    // block b gets the smallest (extreme 0) or largest (extreme 1) word, the others the rest in seeded order
                    let special = if extreme == 0 { ws.remove(0) } else { ws.pop().unwrap() };
                    rng.shuffle(&mut ws);
                    let mut block_word = [0u32; 7];
                    let mut k = 0;
                    for j in 0..nb {
                        if j == b {
                            block_word[j] = special;
                        } else {
                            block_word[j] = ws[k];
                            k += 1;
                        }
                    }
                    let mut h = [0u32; 7];
                    for sl in 0..n {
                        h[sl] = block_word[part[sl] as usize];
                    }
                    check_hand(st, &h[..n]);
                    st.x.patterns[n] += 1;
                    st.x.hashes.insert(drive::hash_words(&h[..n]) ^ n as u64);
                }
            }
        }
    });
    let (r2b, x2b) = merge_states(s2b);
    rep.merge(r2b);

    // ---- (2d) hands drawn from one or two ranks, one duplicate at every position pair ----------------------
    // All slots hold cards of at most two ranks (so that anything keyed by a field of the word - rank nibble, rank
    // bit, prime - collides as much as it can); exactly two slots (every pair i < j) hold the same card. Every
    // pair of ranks, several seeded arrangements. Also the duplicate-free version (a valid hand when it fits).
    let mut rank_pairs: Vec<(u8, u8)> = Vec::new();
    for a in 0..13u8 {
        for b in a..13u8 {
            rank_pairs.push((a, b));
        }
    }
    let s2d = par_run(ctx, rank_pairs.len(), mk, |st, ri| {
        if ctx.smoke() && ri % 13 != 0 {
            return;
        }
        let (ra, rb) = rank_pairs[ri];
        let mut rng = Rng::new(seed, 0xC04_1D00 + ri as u64);
        let mut pool: Vec<u32> = Vec::new();
        for s in 0..4u8 {
            pool.push(model::word(model::idx(ra, s)));
            if rb != ra {
                pool.push(model::word(model::idx(rb, s)));
            }
        }
        for n in 2..=7usize {
            if n - 1 > pool.len() {
                continue;
            }
            for i in 0..n {
                for j in (i + 1)..n {
                    for _ in 0..k_inst {
                        rng.shuffle(&mut pool);
                        let mut h = [0u32; 7];
                        let mut k = 0;
                        for s in 0..n {
                            if s == j {
                                continue;
                            }
                            h[s] = pool[k];
                            k += 1;
                        }
                        h[j] = h[i];
                        check_hand(st, &h[..n]);
                        st.x.patterns[n] += 1;
                    }
                }
            }
            if n <= pool.len() {
                rng.shuffle(&mut pool);
                check_hand(st, &pool[..n]);
            }
        }
    });
    let (r2d, x2d) = merge_states(s2d);
    rep.merge(r2d);

    // ---- (2c) cancellation families ---------------------------------------------------------------------
    // Hands whose non-card words cancel under XOR or under wrapping addition (the last corrupt word is the
    // XOR / the negated sum of the others), or carry one common bit mask on a "rectangle" of cards
    // (two ranks x two suits, whose words XOR to zero): what a validity test that folds the slots into one
    // accumulator with the wrong operator would let through. All are invalid by the oracle.
    let n_cancel = ctx.pick(50, 60_000, 1_000_000) as usize;
    let s2c = par_run(ctx, 64, mk, |st, ch| {
        let mut rng = Rng::new(seed, 0xC04_1C00 + ch as u64);
        for _ in 0..(n_cancel / 64) {
            for n in 3..=7usize {
                let k = 2 + rng.below((n - 1) as u64) as usize; // corrupt slots: 2..=n
                let mode = rng.below(3);
                let mut corrupt: Vec<u32> = Vec::new();
                if mode == 2 && k >= 4 {
                    // one mask on a rectangle of cards
                    let (r1, r2) = (rng.below(13) as u8, rng.below(13) as u8);
                    let (s1, s2) = (rng.below(4) as u8, rng.below(4) as u8);
                    if r1 == r2 || s1 == s2 {
                        continue;
                    }
                    let mask = 1u32 << rng.below(32);
                    for (r, s) in [(r1, s1), (r1, s2), (r2, s1), (r2, s2)] {
                        corrupt.push(model::word(model::idx(r, s)) ^ mask);
                    }
                } else {
                    for _ in 0..(k - 1) {
                        // near-miss words that stay numerically between the lowest and the highest card
                        let c = model::word(rng.below(52) as u8);
                        corrupt.push(c ^ (1u32 << rng.below(16)) ^ if rng.chance(1, 3) { 1u32 << rng.below(16) } else { 0 });
                    }
                    let last = if mode == 0 { corrupt.iter().fold(0u32, |a, &b| a ^ b) } else { corrupt.iter().fold(0u32, |a, &b| a.wrapping_sub(b)) };
                    corrupt.push(last);
                }
                if corrupt.len() > n || corrupt.iter().any(|&w| w == 0 || model_card_index(w).is_some()) {
                    continue;
                }
                let mut sorted = corrupt.clone();
                sorted.sort_unstable();
                if sorted.windows(2).any(|p| p[0] == p[1]) {
                    continue;
                }
                let mut h: Vec<u32> = corrupt;
                while h.len() < n {
                    let w = model::word(rng.below(52) as u8);
                    if !h.contains(&w) {
                        h.push(w);
                    }
                }
                rng.shuffle(&mut h);
                check_hand(st, &h);
                st.x.cancel_hands += 1;
                st.x.hashes.insert(drive::hash_words(&h) ^ n as u64);
            }
        }
    });
    let (r2c, x2c) = merge_states(s2c);
    rep.merge(r2c);

    // ---- (3) all ordered arrays over {52 cards, blank} ------------------------
    // n = 2, 3, 4 (and 5 in the thorough tier); units = first two slots
    let sizes: Vec<usize> = if ctx.smoke() { vec![2] } else if ctx.thorough() { vec![2, 3, 4, 5] } else { vec![2, 3, 4] };
    let mut units: Vec<(usize, u8, u8)> = Vec::new();
    for &n in &sizes {
        for a in 0..53u8 {
            for b in 0..53u8 {
                units.push((n, a, b));
            }
        }
    }
    let s3 = par_run(ctx, units.len(), mk, |st, ui| {
        let (n, a, b) = units[ui];
        let rest = n - 2;
        let total = 53u64.pow(rest as u32);
        let mut h = [0u32; 7];
        h[0] = model::word(a);
        h[1] = model::word(b);
        for mut code in 0..total {
            for s in 0..rest {
                h[2 + s] = model::word((code % 53) as u8);
                code /= 53;
            }
            check_hand(st, &h[..n]);
            st.rep.distinct += 1;
        }
    });
    let (r3, x3) = merge_states(s3);
    rep.merge(r3);

    // ---- (4) every valid five-card hand: validated == unvalidated ------------
    let unit_stride = if ctx.smoke() { 331 } else { 1 };
    let s4 = par_subsets::<5, X, _, _>(ctx, unit_stride, mk, |st, c, _| {
        let w = words_of(c);
        check_hand(st, &w);
        st.rep.distinct += 1;
    });
    let (r4, x4) = merge_states(s4);
    rep.merge(r4);

    // ---- (4b) valid six- and seven-card hands where shortcuts live -------------------------------------------
    // every six-/seven-card hand with five (six-card) / six (seven-card) or more cards of one suit, in 8 seeded slot
    // orders: validated ranking must equal unvalidated ranking on valid hands whatever the arrangement
    let s4b6 = par_subsets::<6, X, _, _>(ctx, unit_stride, mk, |st, c, _| {
        if drive::max_suit_count(c) >= 5 {
            let mut rng = Rng::new(seed, drive::hand_code(c) ^ 0x4B6);
            for _ in 0..8 {
                let p = drive::permuted(c, &mut rng);
                check_hand(st, &words_of(&p));
            }
            st.rep.distinct += 1;
        }
    });
    let (r4b6, x4b6) = merge_states(s4b6);
    rep.merge(r4b6);
    let s4b7 = par_subsets::<7, X, _, _>(ctx, unit_stride, mk, |st, c, _| {
        // ... and every seven-card hand holding four of a kind (224,848 hands: quads + trips, quads + pair ...)
        let mut cnt = [0u8; 13];
        for &x in c.iter() {
            cnt[model::rank_of(x) as usize] += 1;
        }
        if drive::max_suit_count(c) >= 6 || cnt.iter().any(|&k| k == 4) {
            let mut rng = Rng::new(seed, drive::hand_code(c) ^ 0x4B7);
            for _ in 0..8 {
                let p = drive::permuted(c, &mut rng);
                check_hand(st, &words_of(&p));
            }
            st.rep.distinct += 1;
        }
    });
    let (r4b7, x4b7) = merge_states(s4b7);
    rep.merge(r4b7);

    let x4c_all: Vec<X>;
    // ---- (4c) a complete strong hand in every five-slot row, the remaining slots bad ----------------------------
    // Six- and seven-slot hands in which five slots hold a straight flush, four of a kind, a full house (or a
    // sample of the weaker categories) - in every choice of the five slots and four orders - while the one or two
    // remaining slots hold a blank, a duplicate, a non-card word, a flagged or corrupted card (or, for seven
    // slots, one good card and one bad one, or the same good card twice). A validated ranking that stops looking
    // once it has found an unbeatable hand, or validates only the slots it ranked, reports such a hand as valid.
    {
        let mut hands: Vec<[u8; 5]> = Vec::new();
        for suit in 0..4u8 {
            for top in 3..13u8 {
                // straight flushes, the wheel included (top = 3: 5-4-3-2-A)
                let ranks: [u8; 5] = if top == 3 { [3, 2, 1, 0, 12] } else { [top, top - 1, top - 2, top - 3, top - 4] };
                hands.push([model::idx(ranks[0], suit), model::idx(ranks[1], suit), model::idx(ranks[2], suit), model::idx(ranks[3], suit), model::idx(ranks[4], suit)]);
            }
        }
        for q in 0..13u8 {
            for k in 0..13u8 {
                if k != q {
                    hands.push([model::idx(q, 0), model::idx(q, 1), model::idx(q, 2), model::idx(q, 3), model::idx(k, (q + k) % 4)]);
                    hands.push([model::idx(q, 0), model::idx(q, 2), model::idx(q, 3), model::idx(k, 1), model::idx(k, (q % 2) * 3)]); // full house (k suits 1 and 0/3)
                }
            }
        }
        let mut rng0 = Rng::new(seed, 0xC04_4C00);
        for _ in 0..60 {
            // weaker categories: seeded distinct cards
            let mut h = [0u8; 5];
            let mut k = 0;
            while k < 5 {
                let x = rng0.below(52) as u8;
                if !h[..k].contains(&x) {
                    h[k] = x;
                    k += 1;
                }
            }
            hands.push(h);
        }
        let hands: Vec<[u8; 5]> = if ctx.smoke() { hands.into_iter().step_by(97).collect() } else { hands };
        let s4c = par_run(ctx, hands.len(), mk, |st, hi| {
            let h = hands[hi];
            let mut rng = Rng::new(seed, 0xC04_4C01 + hi as u64);
            let hw: Vec<u32> = h.iter().map(|&i| model::word(i)).collect();
            let mut other = rng.below(52) as u8;
            while h.contains(&other) {
                other = (other + 1) % 52;
            }
            let good = model::word(other);
            let bads: [u32; 8] = [0, hw[0], hw[4], 0xFFFF_FFFF, good | (1 << 29), good ^ 1, (good & 0xFFFF_F000) | 0x0FFF, good & 0xFFFF_0FFF];
            for n in [6usize, 7] {
                for row in drive::slot_subsets(n, 5) {
                    let rest: Vec<usize> = (0..n).filter(|s| !row.contains(&(*s as u8))).collect();
                    for order in 0..4 {
                        let mut cards = hw.clone();
                        match order {
                            0 => {}
                            1 => cards.reverse(),
                            _ => rng.shuffle(&mut cards),
                        }
                        let mut w = vec![0u32; n];
                        for (k, &slot) in row.iter().enumerate() {
                            w[slot as usize] = cards[k];
                        }
                        if n == 6 {
                            for &b in &bads {
                                w[rest[0]] = b;
                                check_hand(st, &w);
                            }
                        } else {
                            for &b in &bads {
                                w[rest[0]] = good;
                                w[rest[1]] = b;
                                check_hand(st, &w);
                                w[rest[0]] = b;
                                w[rest[1]] = good;
                                check_hand(st, &w);
                                w[rest[1]] = bads[(rng.below(8)) as usize];
                                check_hand(st, &w);
                            }
                            w[rest[0]] = good;
                            w[rest[1]] = good;
                            check_hand(st, &w);
                        }
                    }
                }
            }
            st.rep.distinct += 1;
            st.rep.add("strong_hands_in_every_row_with_bad_remaining_slots", 1);
        });
        let (r4c, x4c) = merge_states(s4c);
        rep.merge(r4c);
        x4c_all = x4c;
    }

    // ---- (5) seeded card-or-blank and mixed hands of sizes 5..7 ---------------
    let n_rand = ctx.pick(2_000, 1_000_000, 10_000_000);
    let chunks = 64usize;
    let s5 = par_run(ctx, chunks, mk, |st, ch| {
        let mut rng = Rng::new(seed, 0xC04_2000 + ch as u64);
        for it in 0..(n_rand as usize / chunks) {
            for n in 5..=7usize {
                let mut h = [0u32; 7];
                let mode = rng.below(4);
                for s in 0..n {
                    h[s] = match mode {
                        0 => model::word(rng.below(52) as u8),                                   // cards, duplicates likely in 1 of ~4
                        1 => model::word(rng.below(53) as u8),                                   // cards or blank
                        2 => if rng.chance(1, 6) { near_miss(&mut rng) } else { model::word(rng.below(52) as u8) },
                        _ => {
                            // a valid hand (distinct cards)
                            loop {
                                let w = model::word(rng.below(52) as u8);
                                if !h[..s].contains(&w) {
                                    break w;
                                }
                            }
                        }
                    };
                }
                check_hand(st, &h[..n]);
                if it < 1_000_000 / chunks {
                    // distinct-counting through the hash set is bounded; later hands are not added to `distinct`
                    st.x.hashes.insert(drive::hash_words(&h[..n]) ^ n as u64);
                }
            }
        }
    });
    let (r5, x5) = merge_states(s5);
    rep.merge(r5);

    let mut acc = mk();
    for x in x1.into_iter().chain(x1b).chain(x1c).chain(x2).chain(x2b).chain(x2d).chain(x2c).chain(x4b6).chain(x4b7).chain(x4c_all).chain(x3).chain(x4).chain(x5) {
        for k in 0..8 {
            acc.valid[k] += x.valid[k];
            acc.invalid[k] += x.invalid[k];
            acc.patterns[k] += x.patterns[k];
        }
        acc.words_swept += x.words_swept;
        acc.cards_recognised += x.cards_recognised;
        acc.ball_hands += x.ball_hands;
        acc.cancel_hands += x.cancel_hands;
        acc.hashes.extend(x.hashes);
    }
    rep.distinct += acc.hashes.len() as u64;
    rep.add("words_swept_through_one_slot", acc.words_swept);
    rep.add("swept_words_that_are_cards(model)", acc.cards_recognised);
    for n in 2..=7 {
        rep.add(&format!("size{}.valid_hands", n), acc.valid[n]);
        rep.add(&format!("size{}.invalid_hands", n), acc.invalid[n]);
        rep.add(&format!("size{}.equality_pattern_instances", n), acc.patterns[n]);
    }
    rep.add("set_partitions_covered", jobs.len() as u64);
    rep.add("cancellation_family_hands(non-card words that XOR / sum to zero)", acc.cancel_hands);
    rep.add("hamming_ball_hands(every word within distance 2 of a card or blank, every slot, every size)", acc.ball_hands);
    if !ctx.smoke() {
        rep.floor("words swept", acc.words_swept, (1u64 << 32) / leg_stride as u64);
        if leg_stride == 1 {
            rep.floor("cards among the swept words", acc.cards_recognised, 52);
        }
        rep.floor("set partitions", jobs.len() as u64, 2 + 5 + 15 + 52 + 203 + 877);
        for n in 2..=7 {
            rep.floor(&format!("valid hands of size {}", n), acc.valid[n], 50);
            rep.floor(&format!("invalid hands of size {}", n), acc.invalid[n], 50);
        }
    }
    rep.exhaustive = Some(false);
    rep.rule = format!(
        "(1) all 2^32 words (a 1-in-16 share of the 2^16-word blocks in the checked leg) placed in {} next to distinct real cards, \
         and every word within Hamming distance 2 of a card or blank in every slot of every size; (2) for n=2..7 every set partition of the slots x every assignment of \
         {{card, blank, near-miss, arbitrary}} to the blocks x {} seeded instantiations, and all-card instantiations with each block in turn holding the smallest / largest card, hands whose non-card words cancel under XOR / addition, and hands drawn from one or two ranks with one duplicate at every position pair; (3) all ordered arrays over {{52 cards, blank}} for n in {:?}; \
         (4) all 2,598,960 valid five-card hands, and every six-/seven-card hand with five/six or more suited cards and every seven-card hand holding four of a kind in 8 seeded slot orders; (5) {} seeded hands per size 5..7. distinct = enumerated cases (1,3,4) + hash-set count of the generated hands (2,5); \
         every case is non-trivial (each runs the validity oracle against the crate)",
        if every_slot { "every slot of every size 2..7" } else { "one seeded slot of a Two (and of a Five for 1-in-16 blocks)" },
        k_inst, sizes, n_rand
    );
    rep
}

pub fn replay(_ctx: &Ctx, inp: &Input, _clause: &str) -> Rep {
    let mut rep = Rep::new();
    let mut st = St { rep: Rep::new(), x: mk(), cur: [0; 8], cur_len: 0, cur_what: "" };
    match inp {
        Input::Words(w) if (2..=7).contains(&w.len()) => {
            if let Err(msg) = drive::guard(|| check_hand(&mut st, w)) {
                st.rep.violation("panic", "is_valid / validated ranking", inp.clone(), "normal return".into(), msg);
            }
        }
        _ => bad_replay(&mut rep, "C04 wants words: 2..7 words"),
    }
    st.rep.distinct = 1;
    rep.merge(st.rep);
    rep
}
