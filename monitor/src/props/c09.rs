//! C09 — more cards never weaken a hand: seven <= every six-subset <= every five-subset.
//!
//! Metamorphic monitor, no oracle: sub-hands are built by the harness by
//! deleting a slot (never with the crate's slot tables), all values come from
//! the crate. Refuted by v7 > some v6, v7 != min v6, v6 > some v5, v6 != min v5.

use crate::common::{Ctx, Input, Rep};
use crate::drive::{self, merge_states, par_subsets, permuted, selected, Rng, St};
use crate::model;
use crate::props::{bad_replay, words_of};
use ckc_rs::cards::five::Five;
use ckc_rs::cards::seven::Seven;
use ckc_rs::cards::six::Six;
use ckc_rs::cards::HandRanker;

pub struct X {
    unique_min: u64,
    tied_min: u64,
    improved: u64,   // sub-hands strictly weaker than the larger hand (the extra card helped)
    unchanged: u64,  // sub-hands with the same value
    cat_improved: u64,
    other_entries: u64, // hands also taken through the validated / HandRank / value-and-hand entry points
}

fn mk() -> X {
    X { unique_min: 0, tied_min: 0, improved: 0, unchanged: 0, cat_improved: 0, other_entries: 0 }
}

fn cat_of_value(v: u16) -> u8 {
    // category boundaries of the standard 7462-class order (from the rules: 10,156,156,1277,10,858,858,2860,1277)
    match v {
        1..=10 => 8,
        11..=166 => 7,
        167..=322 => 6,
        323..=1599 => 5,
        1600..=1609 => 4,
        1610..=2467 => 3,
        2468..=3325 => 2,
        3326..=6185 => 1,
        _ => 0,
    }
}

#[inline]
fn check7(st: &mut St<X>, c: &[u8; 7]) {
    let w = words_of(c);
    st.flight("Seven vs its six-card sub-hands", &w);
    let v7 = Seven::from(w).hand_rank_value();
    let mut minv = u16::MAX;
    let mut at_min = 0;
    for drop in 0..7 {
        let mut s = [0u32; 6];
        let mut k = 0;
        for i in 0..7 {
            if i != drop {
                s[k] = w[i];
                k += 1;
            }
        }
        let v6 = Six::from(s).hand_rank_value();
        if v7 > v6 {
            st.rep.violation(
                "seven-card value <= value of each six-card sub-hand",
                "Seven::hand_rank_value vs Six::hand_rank_value",
                Input::Idx(c.to_vec()),
                format!("v7 <= v6 = {} (slot {} removed)", v6, drop),
                format!("v7 = {}", v7),
            );
        }
        if v6 < minv {
            minv = v6;
            at_min = 1;
        } else if v6 == minv {
            at_min += 1;
        }
        if v6 > v7 {
            st.x.improved += 1;
            if cat_of_value(v6) < cat_of_value(v7) {
                st.x.cat_improved += 1;
            }
        } else {
            st.x.unchanged += 1;
        }
    }
    st.rep.evaluations += 8;
    if v7 != minv {
        st.rep.violation(
            "seven-card value == smallest of its seven six-card values",
            "Seven::hand_rank_value vs Six::hand_rank_value",
            Input::Idx(c.to_vec()),
            format!("min v6 = {}", minv),
            format!("v7 = {}", v7),
        );
    }
    if at_min == 1 {
        st.x.unique_min += 1;
    } else {
        st.x.tied_min += 1;
    }
    // the same relation through the other value entry points (seven distinct real cards are a valid hand, so
    // the validated value is *the* value): the validated seven-card value against the plain six-card minimum
    // on every hand; on a fixed quarter of the hands also validated against validated, and the HandRank and
    // value-and-hand entry points
    let h7 = Seven::from(w);
    let v7v = h7.hand_rank_value_validated();
    st.rep.evaluations += 1;
    if v7v != minv {
        st.rep.violation(
            "seven-card value == smallest of its seven six-card values",
            "Seven::hand_rank_value_validated vs Six::hand_rank_value",
            Input::Idx(c.to_vec()),
            format!("min v6 = {}", minv),
            format!("validated v7 = {}", v7v),
        );
    }
    if drive::hand_code(c) % 4 == 0 {
        let mut minvv = u16::MAX;
        for drop in 0..7 {
            let mut s = [0u32; 6];
            let mut k = 0;
            for i in 0..7 {
                if i != drop {
                    s[k] = w[i];
                    k += 1;
                }
            }
            minvv = minvv.min(Six::from(s).hand_rank_value_validated());
        }
        st.rep.evaluations += 10;
        st.x.other_entries += 1;
        for (entry, v) in [
            ("Seven::hand_rank_value_validated vs Six::hand_rank_value_validated", v7v),
            ("Seven::hand_rank().value vs Six::hand_rank_value_validated", h7.hand_rank().value),
            ("Seven::hand_rank_validated().value vs Six::hand_rank_value_validated", h7.hand_rank_validated().value),
            ("Seven::hand_rank_value_and_hand().0 vs Six::hand_rank_value_validated", h7.hand_rank_value_and_hand().0),
        ] {
            if v != minvv {
                st.rep.violation("seven-card value == smallest of its seven six-card values", entry, Input::Idx(c.to_vec()), format!("min validated v6 = {}", minvv), format!("v7 = {}", v));
            }
        }
    }
}

#[inline]
fn check6(st: &mut St<X>, c: &[u8; 6]) {
    let w = words_of(c);
    st.flight("Six vs its five-card sub-hands", &w);
    let v6 = Six::from(w).hand_rank_value();
    let mut minv = u16::MAX;
    let mut at_min = 0;
    for drop in 0..6 {
        let mut s = [0u32; 5];
        let mut k = 0;
        for i in 0..6 {
            if i != drop {
                s[k] = w[i];
                k += 1;
            }
        }
        let v5 = Five::from(s).hand_rank_value();
        if v6 > v5 {
            st.rep.violation(
                "six-card value <= value of each five-card sub-hand",
                "Six::hand_rank_value vs Five::hand_rank_value",
                Input::Idx(c.to_vec()),
                format!("v6 <= v5 = {} (slot {} removed)", v5, drop),
                format!("v6 = {}", v6),
            );
        }
        if v5 < minv {
            minv = v5;
            at_min = 1;
        } else if v5 == minv {
            at_min += 1;
        }
        if v5 > v6 {
            st.x.improved += 1;
            if cat_of_value(v5) < cat_of_value(v6) {
                st.x.cat_improved += 1;
            }
        } else {
            st.x.unchanged += 1;
        }
    }
    st.rep.evaluations += 7;
    if v6 != minv {
        st.rep.violation(
            "six-card value == smallest of its six five-card values",
            "Six::hand_rank_value vs Five::hand_rank_value",
            Input::Idx(c.to_vec()),
            format!("min v5 = {}", minv),
            format!("v6 = {}", v6),
        );
    }
    if at_min == 1 {
        st.x.unique_min += 1;
    } else {
        st.x.tied_min += 1;
    }
    // the other value entry points, as in check7
    let h6 = Six::from(w);
    let v6v = h6.hand_rank_value_validated();
    st.rep.evaluations += 1;
    if v6v != minv {
        st.rep.violation(
            "six-card value == smallest of its six five-card values",
            "Six::hand_rank_value_validated vs Five::hand_rank_value",
            Input::Idx(c.to_vec()),
            format!("min v5 = {}", minv),
            format!("validated v6 = {}", v6v),
        );
    }
    if drive::hand_code(c) % 4 == 0 {
        let mut minvv = u16::MAX;
        for drop in 0..6 {
            let mut s = [0u32; 5];
            let mut k = 0;
            for i in 0..6 {
                if i != drop {
                    s[k] = w[i];
                    k += 1;
                }
            }
            minvv = minvv.min(Five::from(s).hand_rank_value_validated());
        }
        st.rep.evaluations += 9;
        st.x.other_entries += 1;
        for (entry, v) in [
            ("Six::hand_rank_value_validated vs Five::hand_rank_value_validated", v6v),
            ("Six::hand_rank().value vs Five::hand_rank_value_validated", h6.hand_rank().value),
            ("Six::hand_rank_validated().value vs Five::hand_rank_value_validated", h6.hand_rank_validated().value),
            ("Six::hand_rank_value_and_hand().0 vs Five::hand_rank_value_validated", h6.hand_rank_value_and_hand().0),
        ] {
            if v != minvv {
                st.rep.violation("six-card value == smallest of its six five-card values", entry, Input::Idx(c.to_vec()), format!("min validated v5 = {}", minvv), format!("v6 = {}", v));
            }
        }
    }
}

pub fn run(ctx: &Ctx) -> Rep {
    let mut rep = Rep::new();
    let seed = ctx.seed;
    let unit_stride = if ctx.smoke() { 331 } else { 1 };
    let rate7 = ctx.pick(1, 4, 1);

    let leg_div: u64 = if ctx.leg == "checked" && !ctx.thorough() && !ctx.smoke() { 4 } else { 1 };
    let rate7 = rate7 * leg_div;
    let s6 = par_subsets::<6, X, _, _>(ctx, unit_stride, mk, |st, c, _| {
        if !selected(c, seed, 0xC4EC, leg_div) {
            return;
        }
        st.rep.distinct += 1;
        // half of the hands in a seeded slot order, half canonical
        if selected(c, seed, 0x96, 2) {
            let mut rng = Rng::new(seed, drive::hand_code(c) ^ 0x9696);
            let p = permuted(c, &mut rng);
            check6(st, &p);
        } else {
            check6(st, c);
        }
        if st.rep.want_sample() && st.rep.distinct % 2_000_003 == 1 {
            let w = words_of(c);
            let v6 = Six::from(w).hand_rank_value();
            let subs: Vec<u16> = (0..6)
                .map(|d| {
                    let s: Vec<u32> = (0..6).filter(|&i| i != d).map(|i| w[i]).collect();
                    Five::from([s[0], s[1], s[2], s[3], s[4]]).hand_rank_value()
                })
                .collect();
            st.rep.sample(format!("six {} -> v6 {} ; v5 of sub-hands {:?}", model::hand_name(c), v6, subs));
        }
    });
    let (r6, x6) = merge_states(s6);
    let n6 = r6.distinct;
    rep.merge(r6);

    let s7 = par_subsets::<7, X, _, _>(ctx, unit_stride, mk, |st, c, _| {
        // the 6,864 single-suit hands in all 5,040 slot orders: the seven-card value in every order against the
        // minimum of the seven six-card values (taken once, in canonical order)
        if drive::max_suit_count(c) == 7 && !ctx.smoke() {
            let w = words_of(c);
            let mut minv = u16::MAX;
            for drop in 0..7 {
                let s: Vec<u32> = (0..7).filter(|&i| i != drop).map(|i| w[i]).collect();
                minv = minv.min(Six::from([s[0], s[1], s[2], s[3], s[4], s[5]]).hand_rank_value());
            }
            for k in 0..drive::factorial(7) {
                let p = drive::nth_permutation(7, k);
                let a = [c[p[0] as usize], c[p[1] as usize], c[p[2] as usize], c[p[3] as usize], c[p[4] as usize], c[p[5] as usize], c[p[6] as usize]];
                let v7 = Seven::from(words_of(&a)).hand_rank_value();
                st.rep.evaluations += 1;
                if v7 != minv {
                    st.rep.violation(
                        "seven-card value == smallest of its seven six-card values",
                        "Seven::hand_rank_value vs Six::hand_rank_value",
                        Input::Idx(a.to_vec()),
                        format!("min v6 = {}", minv),
                        format!("v7 = {}", v7),
                    );
                }
            }
            st.rep.add("single_suit_hands_in_every_slot_order", 1);
        }
        // every hand with six or more suited cards (274,560 hands, where straight-flush shortcuts live) in 8 seeded
        // slot orders, whatever the sampling below decides
        if drive::max_suit_count(c) >= 6 && !ctx.smoke() {
            let mut rng = Rng::new(seed, drive::hand_code(c) ^ 0x9A9A);
            for _ in 0..8 {
                let p = permuted(c, &mut rng);
                check7(st, &p);
            }
            st.rep.add("six_suited_hands_in_8_seeded_orders", 1);
        }
        if !selected(c, seed, 0x97, rate7) {
            return;
        }
        st.rep.distinct += 1;
        if selected(c, seed, 0x98, 2) {
            let mut rng = Rng::new(seed, drive::hand_code(c) ^ 0x9797);
            let p = permuted(c, &mut rng);
            check7(st, &p);
        } else {
            check7(st, c);
        }
        // hands whose best is a full house or better: 8 more seeded slot orders (shortcuts for strong hands)
        {
            let v7 = Seven::from(words_of(c)).hand_rank_value();
            if v7 != 0 && v7 <= 322 && !ctx.smoke() {
                let mut rng = Rng::new(seed, drive::hand_code(c) ^ 0x9B9B);
                for _ in 0..8 {
                    let p = permuted(c, &mut rng);
                    check7(st, &p);
                }
                st.rep.add("full_house_or_better_hands_in_8_more_orders", 1);
            }
        }
        // call-history probe: the seven-card value taken right after ranking a suit-swapped twin (same ranks,
        // same suit histogram) must still be the minimum of its six-card values
        if drive::max_suit_count(c) >= 5 && selected(c, seed, 0x99, ctx.pick(1, 2, 1)) {
            for t in drive::suit_swap_twins(c) {
                let tw: [u8; 7] = t.try_into().unwrap();
                let _ = Seven::from(words_of(&tw)).hand_rank_value();
                check7(st, c);
                st.rep.add("seven_card_values_taken_right_after_a_twin", 1);
            }
        }
        if st.rep.want_sample() && st.rep.distinct % 3_000_017 == 1 {
            let w = words_of(c);
            let v7 = Seven::from(w).hand_rank_value();
            let subs: Vec<u16> = (0..7)
                .map(|d| {
                    let s: Vec<u32> = (0..7).filter(|&i| i != d).map(|i| w[i]).collect();
                    Six::from([s[0], s[1], s[2], s[3], s[4], s[5]]).hand_rank_value()
                })
                .collect();
            st.rep.sample(format!("seven {} -> v7 {} ; v6 of sub-hands {:?}", model::hand_name(c), v7, subs));
        }
    });
    let (r7, x7) = merge_states(s7);
    let n7 = r7.distinct;
    rep.merge(r7);

    let mut acc = mk();
    for x in x6.into_iter().chain(x7) {
        acc.unique_min += x.unique_min;
        acc.tied_min += x.tied_min;
        acc.improved += x.improved;
        acc.unchanged += x.unchanged;
        acc.cat_improved += x.cat_improved;
        acc.other_entries += x.other_entries;
    }
    rep.add("six_card_subsets", n6);
    rep.add("seven_card_subsets", n7);
    rep.add("hands_whose_minimum_is_attained_by_exactly_one_sub_hand", acc.unique_min);
    rep.add("hands_whose_minimum_is_attained_by_several_sub_hands", acc.tied_min);
    rep.add("sub_hands_strictly_weaker(the extra card improved the value)", acc.improved);
    rep.add("sub_hands_equal(the extra card did not matter)", acc.unchanged);
    rep.add("sub_hands_in_a_weaker_category", acc.cat_improved);
    rep.add("hands_also_through_validated_handrank_and_value_and_hand_entries", acc.other_entries);
    if !ctx.smoke() {
        rep.floor("six_card_subsets", n6, if leg_div == 1 { 20_358_520 } else { 20_358_520 / leg_div / 2 });
        rep.floor("seven_card_subsets", n7, if rate7 == 1 { 133_784_560 } else { 133_784_560 / rate7 / 2 });
        rep.floor("hands with a unique minimising sub-hand", acc.unique_min, 1000);
        rep.floor("sub-hands strictly weaker", acc.improved, 1000);
        rep.floor("hands through the other value entry points", acc.other_entries, 1000);
        rep.exhaustive = Some(rate7 == 1);
    }
    rep.rule = format!(
        "every 6-subset of the deck with its six 5-card sub-hands; {} 7-subsets with their seven 6-card sub-hands \
         (enumerated once each = distinct); half of the hands in a seeded slot order; sub-hands made by deleting one slot; \
         a hand is non-trivial always (the min clause binds on every hand)",
        if rate7 == 1 { "all".to_string() } else { format!("a seeded 1-in-{} selection of the", rate7) }
    );
    rep
}

pub fn replay(_ctx: &Ctx, inp: &Input, _clause: &str) -> Rep {
    let mut rep = Rep::new();
    let ok = |v: &Vec<u8>| {
        let mut s = v.clone();
        s.sort_unstable();
        v.iter().all(|&i| i < 52) && !s.windows(2).any(|w| w[0] == w[1])
    };
    let mut st = St { rep: Rep::new(), x: mk(), cur: [0; 8], cur_len: 0, cur_what: "" };
    let r = match inp {
        Input::Idx(v) if v.len() == 6 && ok(v) => {
            let c: [u8; 6] = v.clone().try_into().unwrap();
            drive::guard(|| check6(&mut st, &c))
        }
        Input::Idx(v) if v.len() == 7 && ok(v) => {
            let c: [u8; 7] = v.clone().try_into().unwrap();
            drive::guard(|| check7(&mut st, &c))
        }
        _ => {
            bad_replay(&mut rep, "C09 wants idx: 6 or 7 distinct deck indices");
            Ok(())
        }
    };
    if let Err(msg) = r {
        st.rep.violation("panic", "ranking", inp.clone(), "normal return".into(), msg);
    }
    st.rep.distinct = 1;
    rep.merge(st.rep);
    rep
}
