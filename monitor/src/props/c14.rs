//! C14 — bit-set card form and word form are mutually inverse over the 52 cards.

use crate::common::{Ctx, Input, Rep};
use crate::drive::{self, merge_states, par_run, Rng, St};
use crate::model;
use crate::props::named::{NAMED_BITS, NAMED_RANK_MASKS};
use crate::props::{bad_replay, model_card_index};
use ckc_rs::cards::binary_card::BC64;
use ckc_rs::{CKCNumber, PokerCard};

#[derive(Default)]
pub struct X {
    nonzero_word_to_bit: u64,
    nonzero_bit_to_word: u64,
    sets_tried: u64,
    bulk: u64,
    popcounts: Vec<u64>,
}

fn mk() -> X {
    X { popcounts: vec![0; 65], ..Default::default() }
}

#[inline]
fn check_word(st: &mut St<X>, w: u32) {
    let got = <u64 as BC64>::from_ckc(w);
    st.rep.evaluations += 1;
    let want = match model_card_index(w) {
        Some(i) => model::bit(i),
        None => 0,
    };
    if got != 0 {
        st.x.nonzero_word_to_bit += 1;
    }
    if got != want {
        st.rep.violation(
            "a card word converts to its deck-order bit, every other word to the empty set",
            "BinaryCard::from_ckc",
            Input::Words(vec![w]),
            format!("{:#018x}", want),
            format!("{:#018x}", got),
        );
    }
}

#[inline]
fn check_set(st: &mut St<X>, b: u64) {
    let got = <CKCNumber as PokerCard>::from_binary_card(b);
    st.rep.evaluations += 1;
    st.x.sets_tried += 1;
    st.x.popcounts[b.count_ones() as usize] += 1;
    let want = if b.count_ones() == 1 && b.trailing_zeros() < 52 { model::word(51 - b.trailing_zeros() as u8) } else { 0 };
    if got != 0 {
        st.x.nonzero_bit_to_word += 1;
    }
    if got != want {
        st.rep.violation(
            "exactly one card bit converts to that card, every other 64-bit value to blank",
            "CKCNumber::from_binary_card",
            Input::U64s(vec![b]),
            format!("{:#010x}", want),
            format!("{:#010x}", got),
        );
    }
}

fn fixed(rep: &mut Rep) {
    let deck = <u64 as BC64>::DECK;
    for i in 0..52u8 {
        rep.evaluations += 2;
        rep.distinct += 1;
        if deck[i as usize] != model::bit(i) {
            rep.violation("the bit-form deck holds bit 51 for the first deck card down to bit 0 for the last", "BinaryCard::DECK", Input::Idx(vec![i]), format!("{:#018x}", model::bit(i)), format!("{:#018x}", deck[i as usize]));
        }
        // round trip through the crate, both directions
        let w = model::word(i);
        let b = <u64 as BC64>::from_ckc(w);
        let back = <CKCNumber as PokerCard>::from_binary_card(b);
        if back != w {
            rep.violation("converting a card word to its bit and back returns the same card", "from_ckc -> from_binary_card", Input::Idx(vec![i]), format!("{:#010x}", w), format!("{:#010x} (via {:#018x})", back, b));
        }
    }
    for &(name, r, s, b) in NAMED_BITS.iter() {
        rep.evaluations += 1;
        let i = model::idx(r, s);
        if b != model::bit(i) {
            rep.violation("each named bit constant is the deck-order bit of its card", &format!("BinaryCard::{}", name), Input::Idx(vec![i]), format!("{:#018x}", model::bit(i)), format!("{:#018x}", b));
        }
    }
    rep.evaluations += 1;
    if <u64 as BC64>::BLANK != 0 {
        rep.violation("the empty set is zero", "BinaryCard::BLANK", Input::U64s(vec![0]), "0".into(), format!("{}", <u64 as BC64>::BLANK));
    }
}

pub fn run(ctx: &Ctx) -> Rep {
    let mut rep = Rep::new();
    let seed = ctx.seed;
    fixed(&mut rep);

    // ---- all 2^32 words ------------------------------------------------------------
    let blocks: Vec<u32> = if ctx.smoke() { vec![0, 0x1000, 0x0800, 0x0001, 0xFFFF] } else { (0..65536u32).collect() };
    let s1 = par_run(ctx, blocks.len(), mk, |st, bi| {
        let hi = blocks[bi] << 16;
        for lo in 0..=0xFFFFu32 {
            st.cur[0] = hi | lo;
            st.cur_len = 1;
            st.cur_what = "BinaryCard::from_ckc";
            check_word(st, hi | lo);
        }
        st.rep.distinct += 65536;
    });
    let (r1, x1) = merge_states(s1);
    rep.merge(r1);

    // ---- two-call histories: word->bit of a card right after any word, and the reverse ----------------------
    {
        let cards = model::words52();
        let stride: u32 = if ctx.leg == "checked" {
            ctx.pick(1, 512, 8) as u32
        } else {
            ctx.pick(1, 256, 1) as u32
        };
        let off: u32 = (seed % stride as u64) as u32;
        let hblocks: Vec<u32> = blocks.iter().copied().filter(|b| ctx.smoke() || b % stride == off).collect();
        let sh = par_run(ctx, hblocks.len(), mk, |st, bi| {
            let hi = hblocks[bi] << 16;
            let top = if ctx.smoke() { 0x3F } else { 0xFFFF };
            for lo in 0..=top {
                let w = hi | lo;
                let want_w = model_card_index(w).map_or(0, model::bit);
                st.cur[0] = w;
                st.cur_len = 1;
                st.cur_what = "from_ckc histories";
                for (ci, &c) in cards.iter().enumerate() {
                    let a = <u64 as BC64>::from_ckc(w);
                    let b = <u64 as BC64>::from_ckc(c);
                    if a != want_w || b != model::bit(ci as u8) {
                        let prev = if ci == 0 { w } else { cards[ci - 1] };
                        st.rep.violation(
                            "word-to-bit conversion gives the same answer whatever was converted before",
                            "BinaryCard::from_ckc after BinaryCard::from_ckc",
                            Input::Words(if a != want_w { vec![prev, w] } else { vec![w, c] }),
                            format!("{:#018x} / {:#018x}", want_w, model::bit(ci as u8)),
                            format!("{:#018x} / {:#018x}", a, b),
                        );
                    }
                }
                st.rep.evaluations += 104;
            }
            st.rep.add("two_call_from_ckc_histories", (top as u64 + 1) * 104);
        });
        let (rh, _) = merge_states(sh);
        rep.merge(rh);
        // bit->word: every card bit right after every structured / one- / two-bit set, and the reverse
        let mut st = St { rep: Rep::new(), x: mk(), cur: [0; 8], cur_len: 0, cur_what: "" };
        let mut sets: Vec<u64> = vec![0, u64::MAX, <u64 as BC64>::ALL, <u64 as BC64>::OVERFLOW];
        for a in 0..64 {
            sets.push(1u64 << a);
            for b in (a + 1)..64 {
                sets.push((1u64 << a) | (1u64 << b));
            }
        }
        let r = drive::guard(|| {
            for &s in &sets {
                let want_s = if s.count_ones() == 1 && s.trailing_zeros() < 52 { model::word(51 - s.trailing_zeros() as u8) } else { 0 };
                for i in 0..52u8 {
                    let a = <CKCNumber as PokerCard>::from_binary_card(s);
                    let b = <CKCNumber as PokerCard>::from_binary_card(model::bit(i));
                    st.rep.evaluations += 2;
                    if a != want_s || b != model::word(i) {
                        st.rep.violation(
                            "bit-to-word conversion gives the same answer whatever was converted before",
                            "CKCNumber::from_binary_card after CKCNumber::from_binary_card",
                            Input::U64s(vec![s, model::bit(i)]),
                            format!("{:#010x} / {:#010x}", want_s, model::word(i)),
                            format!("{:#010x} / {:#010x}", a, b),
                        );
                    }
                }
            }
        });
        if let Err(msg) = r {
            st.rep.violation("panic", "from_binary_card", Input::None, "normal return".into(), msg);
        }
        st.rep.add("two_call_from_binary_card_histories", sets.len() as u64 * 104);
        rep.merge(st.rep);
    }

    // ---- 64-bit values: structure + every popcount + seeded -------------------------------
    let n_rand = ctx.pick(2_000, 1_000_000, 50_000_000) as usize;
    let chunks = 64usize;
    let s2 = par_run(ctx, chunks + 1, mk, |st, ch| {
        if ch == chunks {
            let mut v: Vec<u64> = vec![0, <u64 as BC64>::ALL, <u64 as BC64>::OVERFLOW, u64::MAX, <u64 as BC64>::ALL | <u64 as BC64>::OVERFLOW];
            for a in 0..64 {
                v.push(1u64 << a);
                v.push(!(1u64 << a));
                for b in (a + 1)..64 {
                    v.push((1u64 << a) | (1u64 << b));
                }
            }
            for &(_, _, m) in NAMED_RANK_MASKS.iter() {
                v.push(m);
            }
            // suit-lane structured sets: each 13-bit suit lane is empty, full, a seeded pattern r, its complement
            // !r or one bit (5^4 combinations x seeded r), optionally with one more card bit or overflow bits on top
            {
                let mut rng = Rng::new(seed, 0xC14_1A00);
                let rounds = ctx.pick(2, 60, 600);
                for _ in 0..rounds {
                    let r = rng.below(1 << 13);
                    let choices = [0u64, 0x1FFF, r, !r & 0x1FFF, 1u64 << rng.below(13)];
                    for code in 0..625u32 {
                        let mut s = 0u64;
                        let mut cc = code;
                        for lane in 0..4 {
                            s |= choices[(cc % 5) as usize] << (13 * lane);
                            cc /= 5;
                        }
                        v.push(s);
                        v.push(s | (1u64 << rng.below(52)));
                        v.push(s & !(1u64 << rng.below(52)));
                        if code % 25 == 0 {
                            v.push(s | (1u64 << (52 + rng.below(12))));
                        }
                    }
                }
            }
            if !ctx.smoke() {
                // every three- and four-bit value (41,664 + 635,376); every five-bit value (7,624,512) in thorough
                for a in 0..64 {
                    for b in (a + 1)..64 {
                        for c in (b + 1)..64 {
                            let m3 = (1u64 << a) | (1u64 << b) | (1u64 << c);
                            v.push(m3);
                            for d in (c + 1)..64 {
                                v.push(m3 | (1u64 << d));
                                if ctx.thorough() {
                                    for e in (d + 1)..64 {
                                        v.push(m3 | (1u64 << d) | (1u64 << e));
                                    }
                                }
                            }
                        }
                    }
                }
            }
            // field-structured values: repeated and cancelling bytes / words / nibbles (drive::field_structured_u64)
            let structured = drive::field_structured_u64(seed);
            st.rep.add("field_structured_values", structured.len() as u64);
            if ctx.smoke() {
                v.extend(structured.iter().step_by(997));
            } else {
                v.extend(structured);
            }
            for &b in &v {
                check_set(st, b);
            }
            st.rep.distinct += v.len() as u64;
            if !ctx.smoke() {
                // every value whose set bits fit in a 16-bit window (every byte value at every byte position ...)
                let mut n = 0u64;
                drive::for_each_window_value(|b| {
                    check_set(st, b);
                    n += 1;
                });
                st.rep.add("values_within_a_16_bit_window", n);
                st.rep.distinct += n;
            }
            return;
        }
        let mut rng = Rng::new(seed, 0xC14_0000 + ch as u64);
        for it in 0..(n_rand / chunks) {
            // every popcount: choose k bits
            let k = (it % 65) as u32;
            let mut b = 0u64;
            if k <= 32 {
                while b.count_ones() < k {
                    b |= 1u64 << rng.below(64);
                }
            } else {
                b = u64::MAX;
                while b.count_ones() > k {
                    b &= !(1u64 << rng.below(64));
                }
            }
            check_set(st, b);
            if st.rep.want_sample() && it % 3001 == 1 {
                st.rep.sample(format!("from_binary_card({:#018x}) = {:#010x}", b, <CKCNumber as PokerCard>::from_binary_card(b)));
            }
        }
        st.rep.distinct += (n_rand / chunks) as u64 * 63 / 65; // popcounts 0 and 64 repeat; counted conservatively
    });
    let (r2, x2) = merge_states(s2);
    rep.merge(r2);

    // ---- bulk uniform values ------------------------------------------------------------------------------
    // The conversion is a few nanoseconds, so sheer volume is affordable: uniformly distributed 64-bit values
    // (a counter-based generator, no bookkeeping per value), all of which must convert to blank unless they
    // happen to be a single card bit. This is what reaches a conversion that is wrong on a *pseudo-random*
    // sparse set - e.g. a perfect-hash lookup that compares only part of the hash - for which no structured
    // family exists: a set of density d is hit with probability 1 - exp(-d * N).
    {
        let n_bulk: u64 = ctx.pick(20_000, 40_000_000_000, 600_000_000_000);
        let parts = 1024u64;
        let sb = par_run(ctx, parts as usize, mk, |st, pi| {
            let per = n_bulk / parts;
            let mut x = drive::mix(seed ^ 0xC14_B000 ^ ((pi as u64) << 40) ^ if ctx.leg == "checked" { 0x5EED_0000_0000 } else { 0 }); // the two build profiles draw different values;
            let mut bad: Vec<u64> = Vec::new();
            for _ in 0..per {
                // SplitMix64 step
                x = x.wrapping_add(0x9E37_79B9_7F4A_7C15);
                let mut z = x;
                z = (z ^ (z >> 30)).wrapping_mul(0xBF58_476D_1CE4_E5B9);
                z = (z ^ (z >> 27)).wrapping_mul(0x94D0_49BB_1331_11EB);
                z ^= z >> 31;
                if <CKCNumber as PokerCard>::from_binary_card(z) != 0 && bad.len() < 4 {
                    bad.push(z);
                }
            }
            st.rep.evaluations += per;
            st.x.bulk += per;
            for b in bad {
                check_set(st, b); // decides (a single card bit is a card) and reports
            }
        });
        let (rb, xb) = merge_states(sb);
        rep.merge(rb);
        rep.add("bulk_uniform_64_bit_values", xb.iter().map(|x| x.bulk).sum());
    }

    let mut acc = mk();
    for x in x1.into_iter().chain(x2) {
        acc.nonzero_word_to_bit += x.nonzero_word_to_bit;
        acc.nonzero_bit_to_word += x.nonzero_bit_to_word;
        acc.sets_tried += x.sets_tried;
        for k in 0..65 {
            acc.popcounts[k] += x.popcounts[k];
        }
    }
    rep.add("words_with_a_non-empty_bit_set", acc.nonzero_word_to_bit);
    rep.add("sets_with_a_non-blank_card", acc.nonzero_bit_to_word);
    rep.add("sets_tried", acc.sets_tried);
    rep.add("min.sets_per_population_count", *acc.popcounts.iter().min().unwrap());
    rep.sample(format!("from_ckc({:#010x}) = {:#018x}", model::word(0), <u64 as BC64>::from_ckc(model::word(0))));
    rep.sample(format!("from_binary_card({:#018x}) = {:#010x}", 1u64, <CKCNumber as PokerCard>::from_binary_card(1)));
    if !ctx.smoke() {
        rep.floor("words with a non-empty bit set", acc.nonzero_word_to_bit, 52);
        rep.floor("single card bits converted", acc.nonzero_bit_to_word, 52);
        rep.floor("every population count tried", *acc.popcounts.iter().min().unwrap(), 2);
    }
    rep.exhaustive = Some(false);
    rep.rule = format!(
        "all 2^32 words through from_ckc; the 52 DECK entries and 52 named bit constants; every 1- and 2-bit 64-bit value{}, complements of single bits, \
         ALL / OVERFLOW / rank masks, and {} seeded values cycling through every population count through from_binary_card; distinct = words + structured sets + seeded sets (conservative)",
        if ctx.thorough() { ", every 3-, 4- and 5-bit value" } else { ", every 3- and 4-bit value" },
        n_rand
    );
    rep
}

pub fn replay(_ctx: &Ctx, inp: &Input, _clause: &str) -> Rep {
    let mut rep = Rep::new();
    let mut st = St { rep: Rep::new(), x: mk(), cur: [0; 8], cur_len: 0, cur_what: "" };
    let r = drive::guard(|| match inp {
        Input::Words(v) => v.iter().for_each(|&w| check_word(&mut st, w)),
        Input::U64s(v) => v.iter().for_each(|&b| check_set(&mut st, b)),
        Input::Idx(_) => fixed(&mut st.rep),
        _ => bad_replay(&mut st.rep, "C14 wants words, u64s or idx"),
    });
    if let Err(msg) = r {
        st.rep.violation("panic", "bit-set conversion", inp.clone(), "normal return".into(), msg);
    }
    st.rep.distinct = st.rep.distinct.max(1);
    rep.merge(st.rep);
    rep
}
