//! One monitor per property. `run` executes the workload of the tier, `replay`
//! re-executes one recorded case through the same per-case checker.

use crate::common::{Ctx, Input, Rep};

macro_rules! props {
    ($( $feat:literal $m:ident $id:literal ),* $(,)?) => {
        $( #[cfg(feature = $feat)] pub mod $m; )*
        pub fn run(id: &str, ctx: &Ctx) -> Option<Rep> {
            match id {
                $( #[cfg(feature = $feat)] $id => Some($m::run(ctx)), )*
                _ => None,
            }
        }
        pub fn replay(id: &str, ctx: &Ctx, inp: &Input, clause: &str) -> Option<Rep> {
            match id {
                $( #[cfg(feature = $feat)] $id => Some($m::replay(ctx, inp, clause)), )*
                _ => None,
            }
        }
    };
}

props! {
    "c01" c01 "C01",
}

/// Words of a slot-ordered list of deck indices (52 = blank), from the model layout.
#[inline]
pub fn words_of<const N: usize>(c: &[u8; N]) -> [u32; N] {
    let mut w = [0u32; N];
    for k in 0..N {
        w[k] = crate::model::word(c[k]);
    }
    w
}

pub fn bad_replay(rep: &mut Rep, what: &str) {
    rep.inconclusive.push(format!("replay input not usable: {}", what));
}
