//! One monitor per property. `run` executes the workload of the tier, `replay`
//! re-executes one recorded case through the same per-case checker.

use crate::common::{Ctx, Input, Rep};

macro_rules! props {
    ($( $feat:literal $m:ident $id:literal ),* $(,)?) => {
        $( #[cfg(feature = $feat)] pub mod $m; )*
        pub fn run(id: &str, ctx: &Ctx) -> Option<Rep> {
            match id {
                $( #[cfg(feature = $feat)] $id => Some($m::run(ctx)), )*
                _ => None,
            }
        }
        pub fn replay(id: &str, ctx: &Ctx, inp: &Input, clause: &str) -> Option<Rep> {
            // witnesses of whole-run clauses carry no input: replaying them means re-running the workload
            if *inp == Input::None {
                return run(id, ctx);
            }
            match id {
                $( #[cfg(feature = $feat)] $id => Some($m::replay(ctx, inp, clause)), )*
                _ => None,
            }
        }
    };
}

props! {
    "c01" c01 "C01",
    "c02" c02 "C02",
    "c03" c03 "C03",
    "c04" c04 "C04",
    "c05" c05 "C05",
    "c06" c06 "C06",
    "c07" c07 "C07",
    "c08" c08 "C08",
    "c09" c09 "C09",
    "c10" c10 "C10",
    "c11" c11 "C11",
    "c12" c12 "C12",
    "c13" c13 "C13",
    "c14" c14 "C14",
    "c15" c15 "C15",
    "c16" c16 "C16",
    "c17" c17 "C17",
    "c18" c18 "C18",
    "c19" c19 "C19",
    "c20" c20 "C20",
}

/// Words of a slot-ordered list of deck indices (52 = blank), from the model layout.
#[inline]
pub fn words_of<const N: usize>(c: &[u8; N]) -> [u32; N] {
    let mut w = [0u32; N];
    for k in 0..N {
        w[k] = crate::model::word(c[k]);
    }
    w
}

pub fn bad_replay(rep: &mut Rep, what: &str) {
    rep.inconclusive.push(format!("replay input not usable: {}", what));
}

// ---------------------------------------------------------------------------
// Size-dispatched access to the crate's containers Two..Seven.

use ckc_rs::cards::five::Five;
use ckc_rs::cards::four::Four;
use ckc_rs::cards::seven::Seven;
use ckc_rs::cards::six::Six;
use ckc_rs::cards::three::Three;
use ckc_rs::cards::two::Two;
use ckc_rs::cards::{HandRanker, HandValidator};
use ckc_rs::Shifty;

macro_rules! by_len {
    ($w:expr, $h:ident => $body:expr) => {
        match $w.len() {
            2 => { let $h = Two::from([$w[0], $w[1]]); $body }
            3 => { let $h = Three::from([$w[0], $w[1], $w[2]]); $body }
            4 => { let $h = Four::from([$w[0], $w[1], $w[2], $w[3]]); $body }
            5 => { let $h = Five::from([$w[0], $w[1], $w[2], $w[3], $w[4]]); $body }
            6 => { let $h = Six::from([$w[0], $w[1], $w[2], $w[3], $w[4], $w[5]]); $body }
            7 => { let $h = Seven::from([$w[0], $w[1], $w[2], $w[3], $w[4], $w[5], $w[6]]); $body }
            n => panic!("harness: no container of size {}", n),
        }
    };
}

pub fn crate_is_valid(w: &[u32]) -> bool {
    by_len!(w, h => h.is_valid())
}
pub fn crate_is_corrupt(w: &[u32]) -> bool {
    by_len!(w, h => h.is_corrupt())
}
pub fn crate_contain_blank(w: &[u32]) -> bool {
    by_len!(w, h => h.contain_blank())
}
pub fn crate_are_unique(w: &[u32]) -> bool {
    by_len!(w, h => h.are_unique())
}
pub fn crate_sort(w: &[u32]) -> Vec<u32> {
    by_len!(w, h => h.sort().to_arr().to_vec())
}
/// (receiver after sort(), result of sort_in_place())
pub fn crate_sort_both(w: &[u32]) -> (Vec<u32>, Vec<u32>, Vec<u32>) {
    by_len!(w, h => {
        let s = h.sort();
        let after = h.to_arr().to_vec();
        let mut m = h;
        m.sort_in_place();
        (s.to_arr().to_vec(), after, m.to_arr().to_vec())
    })
}
pub fn crate_shift(w: &[u32]) -> Vec<u32> {
    by_len!(w, h => h.shift_suit().to_arr().to_vec())
}

/// validated ranking of 5..=7 slots: (hand_rank_value_validated, hand_rank_validated().value)
pub fn crate_validated(w: &[u32]) -> (u16, u16) {
    match w.len() {
        5 => { let h = Five::from([w[0], w[1], w[2], w[3], w[4]]); (h.hand_rank_value_validated(), h.hand_rank_validated().value) }
        6 => { let h = Six::from([w[0], w[1], w[2], w[3], w[4], w[5]]); (h.hand_rank_value_validated(), h.hand_rank_validated().value) }
        7 => { let h = Seven::from([w[0], w[1], w[2], w[3], w[4], w[5], w[6]]); (h.hand_rank_value_validated(), h.hand_rank_validated().value) }
        n => panic!("harness: no ranking for size {}", n),
    }
}
pub fn crate_validated_value(w: &[u32]) -> u16 {
    match w.len() {
        5 => Five::from([w[0], w[1], w[2], w[3], w[4]]).hand_rank_value_validated(),
        6 => Six::from([w[0], w[1], w[2], w[3], w[4], w[5]]).hand_rank_value_validated(),
        7 => Seven::from([w[0], w[1], w[2], w[3], w[4], w[5], w[6]]).hand_rank_value_validated(),
        n => panic!("harness: no ranking for size {}", n),
    }
}
/// unvalidated ranking of 5..=7 slots
pub fn crate_value(w: &[u32]) -> u16 {
    match w.len() {
        5 => Five::from([w[0], w[1], w[2], w[3], w[4]]).hand_rank_value(),
        6 => Six::from([w[0], w[1], w[2], w[3], w[4], w[5]]).hand_rank_value(),
        7 => Seven::from([w[0], w[1], w[2], w[3], w[4], w[5], w[6]]).hand_rank_value(),
        n => panic!("harness: no ranking for size {}", n),
    }
}

/// O(1) model membership test: is `w` one of the 52 layout words? (decodes the
/// rank nibble and the suit nibble, rebuilds the layout word and compares)
#[inline]
pub fn model_card_index(w: u32) -> Option<u8> {
    let r = (w >> 8) & 0xF;
    let s = (w >> 12) & 0xF;
    if r > 12 {
        return None;
    }
    let suit = match s {
        8 => 0u8,
        4 => 1,
        2 => 2,
        1 => 3,
        _ => return None,
    };
    let i = crate::model::idx(r as u8, suit);
    if crate::model::word(i) == w {
        Some(i)
    } else {
        None
    }
}

#[inline]
pub fn model_valid(w: &[u32]) -> bool {
    for (k, &x) in w.iter().enumerate() {
        if model_card_index(x).is_none() {
            return false;
        }
        for &y in &w[..k] {
            if x == y {
                return false;
            }
        }
    }
    true
}
pub mod named;
