//! C16 — two-card hand from a bit-set: succeeds exactly for two card bits, round-trips.

use crate::common::{Ctx, Input, Rep};
use crate::drive::{self, guard, merge_states, par_run, Rng, St};
use crate::model;
use crate::props::bad_replay;
use ckc_rs::cards::binary_card::BC64;
use ckc_rs::cards::two::Two;
use ckc_rs::HandError;

#[derive(Default)]
pub struct X {
    ok: u64,
    not_enough: u64,
    too_many: u64,
    invalid_format: u64,
    panics: u64,
    popcounts: Vec<u64>,
}

fn mk() -> X {
    X { popcounts: vec![0; 65], ..Default::default() }
}

#[derive(Debug, PartialEq)]
enum Want {
    Ok([u32; 2]),
    NotEnough,
    TooMany,
    InvalidFormat,
}

fn model_two(s: u64) -> Want {
    // loop popcount and descending bit scan (no allocation: this runs tens of millions of times on every thread)
    let mut bits = [0u32; 3];
    let mut n = 0usize;
    for b in (0..64u32).rev() {
        if s >> b & 1 == 1 {
            if n < 3 {
                bits[n] = b;
            }
            n += 1;
        }
    }
    match n {
        0 | 1 => Want::NotEnough,
        2 => {
            if bits[0] < 52 && bits[1] < 52 {
                // deck order: the higher bit is the earlier deck card
                Want::Ok([model::word(51 - bits[0] as u8), model::word(51 - bits[1] as u8)])
            } else {
                Want::InvalidFormat
            }
        }
        _ => Want::TooMany,
    }
}

fn check(st: &mut St<X>, s: u64) {
    st.rep.evaluations += 1;
    st.x.popcounts[s.count_ones() as usize] += 1;
    let want = model_two(s);
    let inp = || Input::U64s(vec![s]);
    match guard(|| Two::try_from(s)) {
        Err(m) => {
            st.x.panics += 1;
            st.rep.violation("conversion never panics", "Two::try_from(BinaryCard)", inp(), format!("{:?}", want), format!("panicked: {}", m));
        }
        Ok(res) => {
            let got = match &res {
                Ok(t) => Want::Ok(t.to_arr()),
                Err(HandError::NotEnoughCards) => Want::NotEnough,
                Err(HandError::TooManyCards) => Want::TooMany,
                Err(HandError::InvalidBinaryFormat) => Want::InvalidFormat,
                Err(_) => Want::Ok([u32::MAX, u32::MAX]), // some other error kind: never expected
            };
            match got {
                Want::Ok(_) => st.x.ok += 1,
                Want::NotEnough => st.x.not_enough += 1,
                Want::TooMany => st.x.too_many += 1,
                Want::InvalidFormat => st.x.invalid_format += 1,
            }
            if got != want {
                st.rep.violation(
                    "succeeds exactly for two card bits (cards in deck order); otherwise the error kind follows the population count",
                    "Two::try_from(BinaryCard)",
                    inp(),
                    format!("{:?}", want),
                    format!("{:?}", res),
                );
            }
            // the same set converted again right away must give the same answer (no state between calls)
            if let Ok(again) = guard(|| Two::try_from(s)) {
                st.rep.evaluations += 1;
                if again != res {
                    st.rep.violation(
                        "converting the same set twice in a row gives the same result",
                        "Two::try_from(BinaryCard) x2",
                        inp(),
                        format!("{:?}", res),
                        format!("{:?} on the second call", again),
                    );
                }
            }
            if let Ok(t) = res {
                let back = <u64 as BC64>::from_two(t);
                st.rep.evaluations += 1;
                if back != s {
                    st.rep.violation("converting the hand back yields the same set", "BinaryCard::from_two(Two::try_from(s))", inp(), format!("{:#018x}", s), format!("{:#018x}", back));
                }
            }
        }
    }
}

pub fn run(ctx: &Ctx) -> Rep {
    let mut rep = Rep::new();
    let seed = ctx.seed;
    let n_rand = ctx.pick(1_000, 6_500_000, 65_000_000) as usize;
    let chunks = 64usize;
    // the structured values run first and alone (one thread), so that nothing else calls into the crate
    // between the two consecutive conversions of the same set; the seeded sets follow on all threads
    let s = par_run(ctx, 1, mk, |st, _| {
        {
            check(st, 0);
            st.rep.distinct += 1;
            for a in 0..64 {
                for b in a..64 {
                    check(st, (1u64 << a) | (1u64 << b)); // all one- and two-bit values
                    st.rep.distinct += 1;
                    if !ctx.smoke() {
                        // every three- and four-bit value (41,664 + 635,376)
                        for c in (b + 1)..64 {
                            if b > a {
                                let m3 = (1u64 << a) | (1u64 << b) | (1u64 << c);
                                check(st, m3);
                                st.rep.distinct += 1;
                                for d in (c + 1)..64 {
                                    check(st, m3 | (1u64 << d));
                                    st.rep.distinct += 1;
                                }
                            }
                        }
                    }
                }
            }
            for v in [u64::MAX, <u64 as BC64>::ALL, <u64 as BC64>::OVERFLOW, !1u64, 3u64 << 51, 3u64 << 52, (1u64 << 63) | 1] {
                check(st, v);
                st.rep.distinct += 1;
            }
        }
    });
    let (r0, xs0) = merge_states(s);
    rep.merge(r0);
    // card bits combined with every subset of the twelve non-card bits: no card bit, each card bit,
    // each pair of card bits (x 4,096 subsets); three card bits with the empty / full / single-bit subsets
    let junk_units: usize = if ctx.smoke() { 0 } else { 64 };
    let sj = par_run(ctx, junk_units + 1, mk, |st, u| {
        let junk = |j: u64| j << 52;
        if u < junk_units {
            for j in ((u as u64) * 64)..((u as u64 + 1) * 64) {
                check(st, junk(j));
                for a in 0..52 {
                    check(st, (1u64 << a) | junk(j));
                    for b in (a + 1)..52 {
                        check(st, (1u64 << a) | (1u64 << b) | junk(j));
                    }
                }
                st.rep.distinct += 1 + 52 + 1326;
            }
            st.rep.add("card_bits_x_junk_bit_subsets", 64 * 1379);
        } else if junk_units > 0 {
            let few: Vec<u64> = std::iter::once(0).chain(std::iter::once(4095)).chain((0..12).map(|k| 1u64 << k)).collect();
            for a in 0..52 {
                for b in (a + 1)..52 {
                    for c in (b + 1)..52 {
                        for &j in &few {
                            check(st, (1u64 << a) | (1u64 << b) | (1u64 << c) | junk(j));
                        }
                    }
                }
            }
            st.rep.add("card_bits_x_junk_bit_subsets", 22100 * 14);
        }
    });
    let (rj, xsj) = merge_states(sj);
    rep.merge(rj);
    // field-structured values (see drive::field_structured_u64): repeated and cancelling bytes / words /
    // nibbles; the fully replicated ones also with every one and two further bits
    let structured = drive::field_structured_u64(seed);
    let n_struct = structured.len();
    let parts = if ctx.smoke() { 1 } else { 64 };
    let sf = par_run(ctx, parts, mk, |st, pi| {
        let step = if ctx.smoke() { 997 } else { 1 };
        for (k, &v) in structured.iter().enumerate().skip(pi).step_by(parts * step) {
            check(st, v);
            st.rep.distinct += 1;
            let replicated = [4u32, 8, 16, 32].iter().any(|&w| {
                let m = (1u64 << w) - 1;
                v != 0 && (0..64 / w).all(|f| (v >> (w * f)) & m == v & m)
            });
            if replicated && !ctx.smoke() {
                for a in 0..64 {
                    check(st, v ^ (1u64 << a));
                    for b in (a + 1)..64 {
                        check(st, v ^ (1u64 << a) ^ (1u64 << b));
                    }
                }
                st.rep.add("replicated_field_values_with_every_one_and_two_bit_change", 1);
                st.rep.distinct += 2080;
            }
            let _ = k;
        }
    });
    let (rf, mut xsf) = merge_states(sf);
    rep.merge(rf);
    if !ctx.smoke() {
        // every value whose set bits fit in a 16-bit window (every byte value at every byte position ...)
        let sw = par_run(ctx, 49, mk, |st, off| {
            for p in 1..=0xFFFFu64 {
                if off == 0 || p & 1 == 1 {
                    check(st, p << off);
                    st.rep.distinct += 1;
                }
            }
            st.rep.add("values_within_a_16_bit_window", if off == 0 { 65535 } else { 32768 });
        });
        let (rw, xsw) = merge_states(sw);
        rep.merge(rw);
        xsf.extend(xsw);
    }
    rep.add("field_structured_values", n_struct as u64);
    let s = par_run(ctx, chunks, mk, |st, ch| {
        let mut rng = Rng::new(seed, 0xC16_0000 + ch as u64);
        for it in 0..(n_rand / chunks) {
            let k = (it % 65) as u32;
            let mut b = 0u64;
            if k <= 32 {
                while b.count_ones() < k {
                    b |= 1u64 << rng.below(64);
                }
            } else {
                b = u64::MAX;
                while b.count_ones() > k {
                    b &= !(1u64 << rng.below(64));
                }
            }
            check(st, b);
            if st.rep.want_sample() && it % 2503 == 2 {
                st.rep.sample(format!("Two::try_from({:#018x}) = {:?}", b, Two::try_from(b)));
            }
        }
        st.rep.distinct += (n_rand / chunks) as u64 * 60 / 65; // small population counts repeat; counted conservatively
    });
    let (r, xs) = merge_states(s);
    rep.merge(r);
    let mut acc = mk();
    for x in xs0.into_iter().chain(xsj).chain(xsf).chain(xs) {
        acc.ok += x.ok;
        acc.not_enough += x.not_enough;
        acc.too_many += x.too_many;
        acc.invalid_format += x.invalid_format;
        acc.panics += x.panics;
        for k in 0..65 {
            acc.popcounts[k] += x.popcounts[k];
        }
    }
    rep.add("outcome.Ok", acc.ok);
    rep.add("outcome.NotEnoughCards", acc.not_enough);
    rep.add("outcome.TooManyCards", acc.too_many);
    rep.add("outcome.InvalidBinaryFormat", acc.invalid_format);
    rep.add("panics_caught", acc.panics);
    rep.add("min.sets_per_population_count", *acc.popcounts.iter().min().unwrap());
    rep.sample(format!("Two::try_from({:#018x}) = {:?}", 3u64 << 50, Two::try_from(3u64 << 50)));
    rep.sample(format!("Two::try_from({:#018x}) = {:?}", 3u64 << 51, Two::try_from(3u64 << 51)));
    if !ctx.smoke() {
        rep.floor("Ok outcomes", acc.ok, 1326);
        rep.floor("NotEnoughCards outcomes", acc.not_enough, 65);
        rep.floor("TooManyCards outcomes", acc.too_many, 1000);
        rep.floor("InvalidBinaryFormat outcomes", acc.invalid_format, 690);
        rep.floor("every population count tried", *acc.popcounts.iter().min().unwrap(), 2);
    }
    rep.exhaustive = Some(false);
    rep.rule = format!(
        "0, all 64 one-bit and all 2,016 two-bit values{}, boundary sets, zero / one / two card bits with every subset of the twelve non-card bits, and {} seeded sets cycling through every population count 0..64; \
         model = descending bit scan; distinct = structured values + seeded values (conservative)",
        ", all three- and four-bit values",
        n_rand
    );
    rep
}

pub fn replay(_ctx: &Ctx, inp: &Input, _clause: &str) -> Rep {
    let mut rep = Rep::new();
    let mut st = St { rep: Rep::new(), x: mk(), cur: [0; 8], cur_len: 0, cur_what: "" };
    match inp {
        Input::U64s(v) if !v.is_empty() => v.iter().for_each(|&s| check(&mut st, s)),
        _ => bad_replay(&mut rep, "C16 wants u64s"),
    }
    st.rep.distinct = 1;
    rep.merge(st.rep);
    rep
}
