//! C19 — hand containers store and return exactly the words put into them.
//!
//! History monitor: every constructor / setter / reader of Two..Seven is driven by
//! seeded operation sequences and compared, after every single operation, with a
//! plain array that received the same writes. Every written word is unique within
//! its history (a counter in the high bits, seeded noise in the low bits), so a
//! write landing in a neighbouring slot, or a read from one, is unambiguous at the
//! step where it happens.

use crate::common::{Ctx, Input, Rep};
use crate::drive::{self, merge_states, par_run, Rng, St};
use crate::props::bad_replay;
use ckc_rs::cards::five::Five;
use ckc_rs::cards::four::Four;
use ckc_rs::cards::seven::Seven;
use ckc_rs::cards::six::Six;
use ckc_rs::cards::three::Three;
use ckc_rs::cards::two::Two;
use ckc_rs::cards::{HandValidator, Permutator};
#[allow(unused_imports)]
use crate::model;

#[derive(Clone, Copy)]
enum C {
    C2(Two),
    C3(Three),
    C4(Four),
    C5(Five),
    C6(Six),
    C7(Seven),
}

/// number of constructor forms per size
fn ctor_forms(n: usize) -> usize {
    match n {
        2 => 4, // From<[u32;2]>, From<&[u32;2]>, new, default+setters
        3 => 3, // From<[u32;3]>, tuple constructor, default+setters
        4 => 2, // From<[u32;4]>, default+setters
        5 => 3, // From, new, default+setters
        6 => 3, // From, from_1_and_2_and_3, default+setters
        7 => 3, // From, new(Two, Five), default+setters
        _ => 0,
    }
}

const CTOR_NAMES: [[&str; 4]; 8] = [
    ["", "", "", ""],
    ["", "", "", ""],
    ["Two::from([u32;2])", "Two::from(&[u32;2])", "Two::new", "Two::default + setters"],
    ["Three::from([u32;3])", "Three(..)", "Three::default + setters", ""],
    ["Four::from([u32;4])", "Four::default + setters", "", ""],
    ["Five::from([u32;5])", "Five::new", "Five::default + setters", ""],
    ["Six::from([u32;6])", "Six::from_1_and_2_and_3", "Six::default + setters", ""],
    ["Seven::from([u32;7])", "Seven::new(Two, Five)", "Seven::default + setters", ""],
];

fn construct(n: usize, form: usize, w: &[u32]) -> C {
    let via_setters = |mut c: C| {
        for (k, &x) in w.iter().enumerate() {
            c.set(k, x);
        }
        c
    };
    match (n, form) {
        (2, 0) => C::C2(Two::from([w[0], w[1]])),
        (2, 1) => C::C2(Two::from(&[w[0], w[1]])),
        (2, 2) => C::C2(Two::new(w[0], w[1])),
        (2, _) => via_setters(C::C2(Two::default())),
        (3, 0) => C::C3(Three::from([w[0], w[1], w[2]])),
        (3, 1) => C::C3(Three([w[0], w[1], w[2]])),
        (3, _) => via_setters(C::C3(Three::default())),
        (4, 0) => C::C4(Four::from([w[0], w[1], w[2], w[3]])),
        (4, _) => via_setters(C::C4(Four::default())),
        (5, 0) => C::C5(Five::from([w[0], w[1], w[2], w[3], w[4]])),
        (5, 1) => C::C5(Five::new(w[0], w[1], w[2], w[3], w[4])),
        (5, _) => via_setters(C::C5(Five::default())),
        (6, 0) => C::C6(Six::from([w[0], w[1], w[2], w[3], w[4], w[5]])),
        (6, 1) => C::C6(Six::from_1_and_2_and_3(w[0], Two::new(w[1], w[2]), Three([w[3], w[4], w[5]]))),
        (6, _) => via_setters(C::C6(Six::default())),
        (7, 0) => C::C7(Seven::from([w[0], w[1], w[2], w[3], w[4], w[5], w[6]])),
        (7, 1) => C::C7(Seven::new(Two::new(w[0], w[1]), Five::new(w[2], w[3], w[4], w[5], w[6]))),
        (7, _) => via_setters(C::C7(Seven::default())),
        _ => panic!("harness: no container of size {}", n),
    }
}

impl C {
    fn set(&mut self, slot: usize, w: u32) {
        match (self, slot) {
            (C::C2(h), 0) => h.set_first(w),
            (C::C2(h), 1) => h.set_second(w),
            (C::C3(h), 0) => h.set_first(w),
            (C::C3(h), 1) => h.set_second(w),
            (C::C3(h), 2) => h.set_third(w),
            (C::C4(h), 0) => h.set_first(w),
            (C::C4(h), 1) => h.set_second(w),
            (C::C4(h), 2) => h.set_third(w),
            (C::C4(h), 3) => h.set_forth(w),
            (C::C5(h), 0) => h.set_first(w),
            (C::C5(h), 1) => h.set_second(w),
            (C::C5(h), 2) => h.set_third(w),
            (C::C5(h), 3) => h.set_forth(w),
            (C::C5(h), 4) => h.set_fifth(w),
            (C::C6(h), 0) => h.set_first(w),
            (C::C6(h), 1) => h.set_second(w),
            (C::C6(h), 2) => h.set_third(w),
            (C::C6(h), 3) => h.set_forth(w),
            (C::C6(h), 4) => h.set_fifth(w),
            (C::C6(h), 5) => h.set_sixth(w),
            (C::C7(h), 0) => h.set_first(w),
            (C::C7(h), 1) => h.set_second(w),
            (C::C7(h), 2) => h.set_third(w),
            (C::C7(h), 3) => h.set_forth(w),
            (C::C7(h), 4) => h.set_fifth(w),
            (C::C7(h), 5) => h.set_sixth(w),
            (C::C7(h), 6) => h.set_seventh(w),
            _ => panic!("harness: no such slot"),
        }
    }
    fn get(&self, slot: usize) -> u32 {
        match (self, slot) {
            (C::C2(h), 0) => h.first(),
            (C::C2(h), 1) => h.second(),
            (C::C3(h), 0) => h.first(),
            (C::C3(h), 1) => h.second(),
            (C::C3(h), 2) => h.third(),
            (C::C4(h), 0) => h.first(),
            (C::C4(h), 1) => h.second(),
            (C::C4(h), 2) => h.third(),
            (C::C4(h), 3) => h.forth(),
            (C::C5(h), 0) => h.first(),
            (C::C5(h), 1) => h.second(),
            (C::C5(h), 2) => h.third(),
            (C::C5(h), 3) => h.forth(),
            (C::C5(h), 4) => h.fifth(),
            (C::C6(h), 0) => h.first(),
            (C::C6(h), 1) => h.second(),
            (C::C6(h), 2) => h.third(),
            (C::C6(h), 3) => h.forth(),
            (C::C6(h), 4) => h.fifth(),
            (C::C6(h), 5) => h.sixth(),
            (C::C7(h), 0) => h.first(),
            (C::C7(h), 1) => h.second(),
            (C::C7(h), 2) => h.third(),
            (C::C7(h), 3) => h.forth(),
            (C::C7(h), 4) => h.fifth(),
            (C::C7(h), 5) => h.sixth(),
            (C::C7(h), 6) => h.seventh(),
            _ => panic!("harness: no such slot"),
        }
    }
    fn arr(&self) -> Vec<u32> {
        match self {
            C::C2(h) => h.to_arr().to_vec(),
            C::C3(h) => h.to_arr().to_vec(),
            C::C4(h) => h.to_arr().to_vec(),
            C::C5(h) => h.to_arr().to_vec(),
            C::C6(h) => h.to_arr().to_vec(),
            C::C7(h) => h.to_arr().to_vec(),
        }
    }
    fn iterated(&self) -> Vec<u32> {
        match self {
            C::C2(h) => h.iter().copied().collect(),
            C::C3(h) => h.iter().copied().collect(),
            C::C4(h) => h.iter().copied().collect(),
            C::C5(h) => h.iter().copied().collect(),
            C::C6(h) => h.iter().copied().collect(),
            C::C7(h) => h.iter().copied().collect(),
        }
    }
}

#[derive(Clone, Debug)]
enum Op {
    /// construct with form f from these words
    New(usize, Vec<u32>),
    Set(usize, u32),
    /// rebuild the container from the model's current contents through constructor form f
    Rebuild(usize),
    /// mutate a copy: the original must not change
    CopyAndScribble(usize, u32),
}

impl Op {
    fn encode(&self) -> String {
        match self {
            Op::New(f, w) => format!("N{}:{}", f, w.iter().map(|x| format!("{:x}", x)).collect::<Vec<_>>().join(".")),
            Op::Set(s, w) => format!("S{}:{:x}", s, w),
            Op::Rebuild(f) => format!("R{}", f),
            Op::CopyAndScribble(s, w) => format!("K{}:{:x}", s, w),
        }
    }
    fn decode(t: &str) -> Option<Op> {
        let (head, rest) = t.split_at(1);
        let mut it = rest.splitn(2, ':');
        let a: usize = it.next()?.parse().ok()?;
        let b = it.next();
        Some(match head {
            "N" => Op::New(a, b?.split('.').filter(|x| !x.is_empty()).map(|x| u32::from_str_radix(x, 16)).collect::<Result<Vec<_>, _>>().ok()?),
            "S" => Op::Set(a, u32::from_str_radix(b?, 16).ok()?),
            "R" => Op::Rebuild(a),
            "K" => Op::CopyAndScribble(a, u32::from_str_radix(b?, 16).ok()?),
            _ => return None,
        })
    }
}

#[derive(Default)]
pub struct X {
    setter_ops: [[u64; 7]; 8],
    getter_reads: [[u64; 7]; 8],
    ctor_ops: [[u64; 4]; 8],
    histories: u64,
    ops: u64,
    tuples: u64,
}

fn mk() -> X {
    X::default()
}

/// run one history on a container of size n; compares with the array model after every operation
fn run_history(st: &mut St<X>, n: usize, ops: &[Op]) {
    st.x.histories += 1;
    let mut model: Vec<u32> = vec![0; n];
    let mut c: Option<C> = None;
    let encode = |ops: &[Op], upto: usize| -> Input {
        let mut v = vec![format!("n{}", n)];
        v.extend(ops[..=upto].iter().map(|o| o.encode()));
        Input::Ops(v)
    };
    for (i, op) in ops.iter().enumerate() {
        st.x.ops += 1;
        let what: String;
        match op {
            Op::New(f, w) => {
                if w.len() != n || *f >= ctor_forms(n) {
                    st.rep.inconclusive.push("malformed history".into());
                    return;
                }
                model.copy_from_slice(w);
                c = Some(construct(n, *f, w));
                st.x.ctor_ops[n][*f] += 1;
                if *f == ctor_forms(n) - 1 {
                    for s in 0..n {
                        st.x.setter_ops[n][s] += 1;
                    }
                }
                what = CTOR_NAMES[n][*f].to_string();
            }
            Op::Set(s, w) => {
                let Some(cc) = c.as_mut() else { return };
                if *s >= n {
                    return;
                }
                cc.set(*s, *w);
                model[*s] = *w;
                st.x.setter_ops[n][*s] += 1;
                what = format!("set slot {}", s);
            }
            Op::Rebuild(f) => {
                if c.is_none() || *f >= ctor_forms(n) {
                    return;
                }
                c = Some(construct(n, *f, &model));
                st.x.ctor_ops[n][*f] += 1;
                what = format!("rebuild through {}", CTOR_NAMES[n][*f]);
            }
            Op::CopyAndScribble(s, w) => {
                let Some(cc) = c.as_ref() else { return };
                if *s >= n {
                    return;
                }
                let mut copy = *cc;
                copy.set(*s, *w);
                let mut want = model.clone();
                want[*s] = *w;
                st.rep.evaluations += 1;
                if copy.arr() != want {
                    st.rep.violation("a setter changes only the slot named", "setter on a copy", encode(ops, i), format!("{:08X?}", want), format!("{:08X?}", copy.arr()));
                    return;
                }
                what = format!("scribble on a copy, slot {}", s);
            }
        }
        // read everything back
        let cc = c.as_ref().unwrap();
        st.rep.evaluations += n as u64 + 2;
        let arr = cc.arr();
        let it = cc.iterated();
        let mut by_accessor = vec![0u32; n];
        for s in 0..n {
            by_accessor[s] = cc.get(s);
            st.x.getter_reads[n][s] += 1;
        }
        if arr != model || it != model || by_accessor != model {
            st.rep.violation(
                "the container always equals a plain array that received the same writes",
                &format!("size {} after step {} ({})", n, i + 1, what),
                encode(ops, i),
                format!("{:08X?}", model),
                format!("accessors {:08X?} to_arr {:08X?} iter {:08X?}", by_accessor, arr, it),
            );
            return;
        }
    }
}

fn unique_word(counter: &mut u32, rng: &mut Rng) -> u32 {
    *counter += 1;
    (*counter << 12) | (rng.u32() & 0xFFF)
}

/// History over a small pool of words (blank, 1, a few real cards, an extreme): repeated words are
/// the point — a setter that "moves" or de-duplicates a word already held elsewhere, or an accessor
/// that searches by value, is invisible to histories whose words are all different. The array model
/// comparison stays exact; only the localisation of a fault is less direct than with unique words.
fn pooled_history(n: usize, len: usize, rng: &mut Rng) -> Vec<Op> {
    const POOL_A: [u32; 8] = [0, 1, 0x10008C29, 0x08004B25, 0x00011002, 0x00012002, 0xFFFF_FFFF, 0x30008C29];
    // the hearts wheel, the spades royal flush cards and two deuces: structured real hands arise in every slot order
    const POOL_B: [u32; 12] = [0x10004C29, 0x00084307, 0x00044205, 0x00024103, 0x00014002, 0x10008C29, 0x08008B25, 0x04008A1F, 0x0200891D, 0x01008817, 0x00018002, 0x00011002];
    let use_b = rng.chance(1, 2);
    let pool = if use_b { 5 + rng.below(8) as usize } else { 2 + rng.below(7) as usize }; // sometimes only {0, 1}
    let pick = |rng: &mut Rng| if use_b { POOL_B[rng.below(pool as u64) as usize] } else { POOL_A[rng.below(pool as u64) as usize] };
    let mut ops = Vec::with_capacity(len);
    let w: Vec<u32> = (0..n).map(|_| pick(rng)).collect();
    ops.push(Op::New(rng.below(ctor_forms(n) as u64) as usize, w));
    for _ in 1..len {
        let r = rng.below(20);
        ops.push(if r < 15 {
            Op::Set(rng.below(n as u64) as usize, pick(rng))
        } else if r < 17 {
            Op::Rebuild(rng.below(ctor_forms(n) as u64) as usize)
        } else if r < 19 {
            Op::CopyAndScribble(rng.below(n as u64) as usize, pick(rng))
        } else {
            let w: Vec<u32> = (0..n).map(|_| pick(rng)).collect();
            Op::New(rng.below(ctor_forms(n) as u64) as usize, w)
        });
    }
    ops
}

fn random_history(n: usize, len: usize, rng: &mut Rng) -> Vec<Op> {
    let mut counter = rng.below(1 << 19) as u32;
    let mut ops = Vec::with_capacity(len);
    let w: Vec<u32> = (0..n).map(|_| unique_word(&mut counter, rng)).collect();
    ops.push(Op::New(rng.below(ctor_forms(n) as u64) as usize, w));
    for _ in 1..len {
        let r = rng.below(20);
        ops.push(if r < 14 {
            Op::Set(rng.below(n as u64) as usize, unique_word(&mut counter, rng))
        } else if r < 17 {
            Op::Rebuild(rng.below(ctor_forms(n) as u64) as usize)
        } else if r < 19 {
            Op::CopyAndScribble(rng.below(n as u64) as usize, unique_word(&mut counter, rng))
        } else {
            let w: Vec<u32> = (0..n).map(|_| unique_word(&mut counter, rng)).collect();
            Op::New(rng.below(ctor_forms(n) as u64) as usize, w)
        });
    }
    ops
}

/// A word shaped like a card - exactly one rank flag (bits 16..28) and one suit flag (bits 12..15) - whose
/// other fields are only sometimes those of the real card: the rank nibble and prime in the low 12 bits may be
/// another card's, slightly off or arbitrary, and the multiples flags may be set. Legal words all the same;
/// a constructor or setter that "re-keys", normalises or validates what looks like a card changes them.
fn shaped_word(rng: &mut Rng) -> u32 {
    const PRIMES: [u32; 13] = [2, 3, 5, 7, 11, 13, 17, 19, 23, 29, 31, 37, 41];
    let r = rng.below(13) as u32;
    let canonical = (r << 8) | PRIMES[r as usize];
    let low = match rng.below(6) {
        0 | 1 => canonical,
        2 => canonical ^ (1 << rng.below(12)),
        3 => {
            let o = rng.below(13) as u32;
            (o << 8) | PRIMES[o as usize]
        }
        4 => 0,
        _ => rng.u32() & 0xFFF,
    };
    let flags = if rng.chance(1, 4) { (1 + rng.below(7) as u32) << 29 } else { 0 };
    flags | (1 << (16 + r)) | (0x1000 << rng.below(4)) | low
}

/// History in which every word is card-shaped (see `shaped_word`), so that every container the constructors
/// and setters see looks like a hand of cards in all its slots at once.
fn shaped_history(n: usize, len: usize, rng: &mut Rng) -> Vec<Op> {
    let mut ops = Vec::with_capacity(len);
    let w: Vec<u32> = (0..n).map(|_| shaped_word(rng)).collect();
    ops.push(Op::New(rng.below(ctor_forms(n) as u64) as usize, w));
    for _ in 1..len {
        let r = rng.below(20);
        ops.push(if r < 10 {
            Op::Set(rng.below(n as u64) as usize, shaped_word(rng))
        } else if r < 13 {
            Op::Rebuild(rng.below(ctor_forms(n) as u64) as usize)
        } else if r < 15 {
            Op::CopyAndScribble(rng.below(n as u64) as usize, shaped_word(rng))
        } else {
            let w: Vec<u32> = (0..n).map(|_| shaped_word(rng)).collect();
            Op::New(rng.below(ctor_forms(n) as u64) as usize, w)
        });
    }
    ops
}

/// five-slot selection: slot k of the result is slot p[k] of the container, for every in-range tuple
fn check_selection(st: &mut St<X>, n: usize, rng: &mut Rng) {
    let mut counter = 7u32;
    let w: Vec<u32> = (0..n).map(|_| unique_word(&mut counter, rng)).collect();
    let total = (n as u64).pow(5);
    for mut code in 0..total {
        let mut p = [0u8; 5];
        for k in 0..5 {
            p[k] = (code % n as u64) as u8;
            code /= n as u64;
        }
        let got = if n == 6 {
            Six::from([w[0], w[1], w[2], w[3], w[4], w[5]]).five_from_permutation(p).to_arr()
        } else {
            Seven::from([w[0], w[1], w[2], w[3], w[4], w[5], w[6]]).five_from_permutation(p).to_arr()
        };
        st.rep.evaluations += 1;
        st.rep.distinct += 1;
        st.x.tuples += 1;
        let want = [w[p[0] as usize], w[p[1] as usize], w[p[2] as usize], w[p[3] as usize], w[p[4] as usize]];
        if got != want {
            let mut v = vec![format!("n{}", n), format!("W:{}", w.iter().map(|x| format!("{:x}", x)).collect::<Vec<_>>().join("."))];
            v.push(format!("P:{}", p.iter().map(|x| x.to_string()).collect::<Vec<_>>().join(".")));
            st.rep.violation(
                "slot-index selection returns the given words of the selected slots, in the given order",
                if n == 6 { "Six::five_from_permutation" } else { "Seven::five_from_permutation" },
                Input::Ops(v),
                format!("{:08X?}", want),
                format!("{:08X?}", got),
            );
        }
    }
}

pub fn run(ctx: &Ctx) -> Rep {
    let mut rep = Rep::new();
    let seed = ctx.seed;
    // ---- directed pass: every constructor form, then every slot written once ---------------------
    {
        let mut st = St { rep: Rep::new(), x: mk(), cur: [0; 8], cur_len: 0, cur_what: "" };
        let mut rng = Rng::new(seed, 0xC19_0000);
        let r = drive::guard(|| {
            for n in 2..=7usize {
                for f in 0..ctor_forms(n) {
                    let mut counter = (n * 100 + f) as u32;
                    let w: Vec<u32> = (0..n).map(|_| unique_word(&mut counter, &mut rng)).collect();
                    let mut ops = vec![Op::New(f, w)];
                    for s in 0..n {
                        ops.push(Op::Set(s, unique_word(&mut counter, &mut rng)));
                    }
                    for s in (0..n).rev() {
                        ops.push(Op::CopyAndScribble(s, unique_word(&mut counter, &mut rng)));
                        ops.push(Op::Set(s, unique_word(&mut counter, &mut rng)));
                    }
                    for g in 0..ctor_forms(n) {
                        ops.push(Op::Rebuild(g));
                    }
                    // extreme words
                    for (k, &x) in [0u32, u32::MAX, 1, 0x8000_0000].iter().enumerate() {
                        ops.push(Op::Set(k % n, x));
                    }
                    run_history(&mut st, n, &ops);
                    st.rep.distinct += 1;
                    if f == 1 && (n == 6 || n == 7) {
                        st.rep.sample(format!("size {} directed history: {}", n, ops.iter().take(5).map(|o| o.encode()).collect::<Vec<_>>().join(" ")));
                    }
                }
            }
            // directed repeated-word pass: for every size, every written slot s and every other slot p,
            // write into s the word currently held in p (and blank into a full hand)
            for n in 2..=7usize {
                for s in 0..n {
                    for p in 0..n {
                        if p == s {
                            continue;
                        }
                        let mut counter = (5000 + n * 100 + s * 10 + p) as u32;
                        let w: Vec<u32> = (0..n).map(|_| unique_word(&mut counter, &mut rng)).collect();
                        let held = w[p];
                        let ops = vec![Op::New(0, w), Op::Set(s, held), Op::Set(p, 0), Op::Set(s, 0), Op::Set(p, held), Op::Set(s, held)];
                        run_history(&mut st, n, &ops);
                        st.rep.distinct += 1;
                        st.rep.add("directed_repeated_word_histories", 1);
                    }
                }
            }
            // directed "the write completes the rank" pass: for every size, rank and written slot, the other slots
            // hold the other cards of that rank (up to three, in every order of the four suits) and the write
            // supplies the missing one - after which the container holds a pair / trips / all four suits of a
            // rank, in an order that is generally not the sorted one. A setter that tidies up a completed set
            // (sorts, de-duplicates, marks) changes slots it was not asked to change.
            if !ctx.smoke() {
                for n in 2..=7usize {
                    for r in 0..13u8 {
                        for s in 0..n {
                            for perm in 0..24u64 {
                                let suits = crate::drive::nth_permutation(4, perm);
                                let same = n.min(4);
                                let others: Vec<usize> = (0..n).filter(|&k| k != s).collect();
                                let mut w: Vec<u32> = vec![0; n];
                                for (k, &slot) in others.iter().enumerate() {
                                    w[slot] = if k < same - 1 {
                                        crate::model::word(crate::model::idx(r, suits[k]))
                                    } else {
                                        crate::model::word(crate::model::idx((r + 2 + k as u8) % 13, (k % 4) as u8))
                                    };
                                }
                                w[s] = crate::model::word(crate::model::idx((r + 6) % 13, 3));
                                let missing = crate::model::word(crate::model::idx(r, suits[same - 1]));
                                let ops = vec![Op::New(0, w), Op::Set(s, missing), Op::Set(s, 0), Op::Set(s, missing)];
                                run_history(&mut st, n, &ops);
                                st.rep.distinct += 1;
                                st.rep.add("directed_write_completes_the_rank_histories", 1);
                            }
                        }
                    }
                }
            }
            // directed "the other slots hold four of a kind" pass: for sizes 5..7, every rank, every written slot and
            // a seeded arrangement of that rank's four cards in other slots, then a write of each card of that rank,
            // of its flagged forms and of an unrelated card into the remaining slot(s)
            if !ctx.smoke() {
                for n in 5..=7usize {
                    for r in 0..13u8 {
                        for s in 0..n {
                            let mut others: Vec<usize> = (0..n).filter(|&k| k != s).collect();
                            rng.shuffle(&mut others);
                            let mut w: Vec<u32> = vec![0; n];
                            for (k, &slot) in others.iter().enumerate() {
                                w[slot] = if k < 4 { crate::model::word(crate::model::idx(r, k as u8)) } else { crate::model::word(crate::model::idx((r + 1 + k as u8) % 13, (k % 4) as u8)) };
                            }
                            w[s] = crate::model::word(crate::model::idx((r + 5) % 13, 1));
                            let mut ops = vec![Op::New(0, w.clone())];
                            for su in 0..4u8 {
                                let c = crate::model::word(crate::model::idx(r, su));
                                ops.push(Op::Set(s, c));
                                ops.push(Op::Set(s, c | (1 << 29)));
                                ops.push(Op::Set(s, c | (7 << 29)));
                            }
                            ops.push(Op::Set(s, crate::model::word(crate::model::idx((r + 3) % 13, 2))));
                            ops.push(Op::Set(s, 0));
                            run_history(&mut st, n, &ops);
                            st.rep.distinct += 1;
                            st.rep.add("directed_quads_in_other_slots_histories", 1);
                        }
                    }
                }
            }
            for n in [6usize, 7] {
                if !(ctx.smoke() && n == 7) {
                    check_selection(&mut st, n, &mut rng);
                }
            }
        });
        if let Err(msg) = r {
            st.rep.violation("panic", "container history", Input::None, "normal return".into(), msg);
        }
        let x = st.x;
        rep.merge(st.rep);
        merge_x(&mut rep, vec![x], false);
    }
    // ---- real card words ---------------------------------------------------------------------------------
    // The property quantifies over arbitrary words, and real cards are the words a "helpful" constructor or
    // selector is most likely to treat specially (normalise, sort, de-duplicate). (a) every five-card hand of
    // the deck through Five::new / From / default+setters in descending, ascending and one seeded slot order,
    // read back slot by slot; (b) for a class-covering set of six- and seven-card hands (one per strength class,
    // every 2nd class in quick), every in-range index tuple of five_from_permutation; (c) the composite
    // constructors on the same hands.
    {
        // (the strength-class table is only needed to pick the class-covering containers; the smoke tier, which runs
        // under the interpreter, uses three fixed hands instead of building it)
        let m_opt = if ctx.smoke() { None } else { Some(crate::model::Model::build()) };
        let s5 = crate::drive::par_subsets::<5, X, _, _>(ctx, if ctx.smoke() { 1321 } else { 1 }, mk, |st, c, _| {
            if ctx.smoke() && st.rep.distinct >= 150 {
                return;
            }
            let mut w = crate::props::words_of(c);
            w.sort_unstable_by(|a, b| b.cmp(a));
            let mut rng = Rng::new(seed, crate::drive::hand_code(c) ^ 0x1919);
            let mut shuffled = w;
            rng.shuffle(&mut shuffled);
            let mut asc = w;
            asc.reverse();
            let mut flagged = shuffled;
            for x in flagged.iter_mut() {
                if rng.chance(1, 2) {
                    *x |= (1 + rng.below(7) as u32) << 29;
                }
            }
            for arr in [w, asc, shuffled, flagged] {
                for f in 0..3 {
                    let cc = construct(5, f, &arr);
                    st.rep.evaluations += 1;
                    if cc.arr() != arr || (0..5).any(|s| cc.get(s) != arr[s]) {
                        st.rep.violation(
                            "constructing from given words and reading back returns the given words in the given slots",
                            CTOR_NAMES[5][f],
                            Input::Ops(vec!["n5".into(), Op::New(f, arr.to_vec()).encode()]),
                            format!("{:08X?}", arr),
                            format!("{:08X?}", cc.arr()),
                        );
                    }
                }
            }
            st.rep.distinct += 1;
            st.rep.add("five_card_hands_constructed_and_read_back", 1);
        });
        let (r5, _) = merge_states(s5);
        rep.merge(r5);

        let every = ctx.pick(7000, 2, 1) as usize;
        let reps: Vec<[u8; 5]> = match &m_opt {
            Some(m) => (1..=m.distinct_keys).filter(|o| o % every == (seed as usize) % every).map(|o| m.representative[o]).collect(),
            None => vec![[13, 22, 23, 24, 25], [0, 1, 2, 3, 4]], // the hearts wheel, the spades royal flush
        };
        let sc = par_run(ctx, reps.len(), mk, |st, ci| {
            let o = ci;
            let mut rng = Rng::new(seed, 0xC19_5000 + o as u64);
            let mut cards: Vec<u8> = reps[ci].to_vec();
            while cards.len() < 7 {
                let x = rng.below(52) as u8;
                if !cards.contains(&x) {
                    cards.push(x);
                }
            }
            let mut w: Vec<u32> = cards.iter().map(|&i| crate::model::word(i)).collect();
            // arrangements: as generated, shuffled, and shuffled with seeded multiples flags (bits 29-31) on
            // some cards - legal words that look like cards to anything that masks the flags off
            for arrangement in 0..6 {
                if arrangement == 5 {
                    // the hand marked the way the marks are meant to be used: every card of the class
                    // representative flagged with the multiplicity of its rank (pair / trips / quads), the two
                    // extra cards unmarked - a *consistently* marked hand, which seeded marks almost never are
                    w = cards.iter().map(|&i| crate::model::word(i)).collect();
                    for k in 0..5 {
                        let mult = (0..5).filter(|&j| crate::model::rank_of(cards[j]) == crate::model::rank_of(cards[k])).count();
                        w[k] |= match mult {
                            2 => 1 << 29,
                            3 => 1 << 30,
                            4 => 1 << 31,
                            _ => 0,
                        };
                    }
                }
                if arrangement >= 1 {
                    rng.shuffle(&mut w);
                }
                if arrangement == 3 || arrangement == 4 {
                    // card-shaped words whose low 12 bits are not the card's: in some slots (3) / in all (4)
                    for x in w.iter_mut() {
                        *x &= 0x1FFF_FFFF;
                        if arrangement == 4 || rng.chance(1, 2) {
                            *x = (*x & 0xFFFF_F000) | (shaped_word(&mut rng) & 0xFFF);
                        }
                    }
                }
                if arrangement == 2 {
                    for x in w.iter_mut() {
                        if rng.chance(1, 2) {
                            *x |= (1 + rng.below(7) as u32) << 29;
                        }
                    }
                }
                for n in [6usize, 7] {
                    if ctx.smoke() && (n == 7 || arrangement == 1 || arrangement == 3 || arrangement == 5) {
                        continue;
                    }
                    let h = &w[..n];
                    // composite constructors and plain ones
                    for f in 0..ctor_forms(n) {
                        let cc = construct(n, f, h);
                        st.rep.evaluations += 1;
                        if cc.arr() != h {
                            st.rep.violation(
                                "constructing from given words and reading back returns the given words in the given slots",
                                CTOR_NAMES[n][f],
                                Input::Ops(vec![format!("n{}", n), Op::New(f, h.to_vec()).encode()]),
                                format!("{:08X?}", h),
                                format!("{:08X?}", cc.arr()),
                            );
                        }
                    }
                    // every in-range index tuple
                    // (the card-shaped arrangements go through the constructors only)
                    let total = if arrangement == 3 || arrangement == 4 { 0 } else { (n as u64).pow(5) };
                    for mut code in 0..total {
                        let mut p = [0u8; 5];
                        for k in 0..5 {
                            p[k] = (code % n as u64) as u8;
                            code /= n as u64;
                        }
                        let got = if n == 6 {
                            Six::from([h[0], h[1], h[2], h[3], h[4], h[5]]).five_from_permutation(p).to_arr()
                        } else {
                            Seven::from([h[0], h[1], h[2], h[3], h[4], h[5], h[6]]).five_from_permutation(p).to_arr()
                        };
                        st.rep.evaluations += 1;
                        st.x.tuples += 1;
                        let want = [h[p[0] as usize], h[p[1] as usize], h[p[2] as usize], h[p[3] as usize], h[p[4] as usize]];
                        if got != want {
                            st.rep.violation(
                                "slot-index selection returns the given words of the selected slots, in the given order",
                                if n == 6 { "Six::five_from_permutation" } else { "Seven::five_from_permutation" },
                                Input::Ops(vec![
                                    format!("n{}", n),
                                    format!("W:{}", h.iter().map(|x| format!("{:x}", x)).collect::<Vec<_>>().join(".")),
                                    format!("P:{}", p.iter().map(|x| x.to_string()).collect::<Vec<_>>().join(".")),
                                ]),
                                format!("{:08X?}", want),
                                format!("{:08X?}", got),
                            );
                        }
                    }
                }
            }
            st.rep.add("real_card_containers_with_every_index_tuple", 6);
        });
        let (rc, xc) = merge_states(sc);
        rep.merge(rc);
        merge_x(&mut rep, xc, false);
    }

    // ---- seeded histories ------------------------------------------------------------------------------
    let n_hist = ctx.pick(200, 200_000, 5_000_000) as usize;
    let chunks = 64usize;
    let s = par_run(ctx, chunks, mk, |st, ch| {
        let mut rng = Rng::new(seed, 0xC19_1000 + ch as u64);
        for it in 0..(n_hist / chunks) {
            let n = 2 + (it % 6);
            // alternate: unique words (unambiguous localisation) / a small pool (repeated words)
            let ops = match (it / 6) % 4 {
                0 | 2 => random_history(n, 40, &mut rng),
                1 => pooled_history(n, 40, &mut rng),
                _ => shaped_history(n, 40, &mut rng),
            };
            match (it / 6) % 4 {
                1 => st.rep.add("histories_over_a_small_word_pool(repeated words)", 1),
                3 => st.rep.add("histories_over_card_shaped_words(one rank flag, one suit flag, other fields off)", 1),
                _ => {}
            }
            run_history(st, n, &ops);
            st.rep.distinct += 1;
            if st.rep.want_sample() && it % 997 == 5 {
                st.rep.sample(format!("size {} history: {} ...", n, ops.iter().take(6).map(|o| o.encode()).collect::<Vec<_>>().join(" ")));
            }
        }
    });
    let (r, xs) = merge_states(s);
    rep.merge(r);
    merge_x(&mut rep, xs, !ctx.smoke());
    rep.exhaustive = Some(false);
    rep.rule = format!(
        "a directed history per size and constructor form (every slot written, copied, rebuilt through every form, extreme words), all 6^5 and 7^5 in-range index tuples \
         for five-slot selection, and {} seeded histories of 40 operations (set / rebuild / copy-and-scribble / reconstruct), half with unique words and half over a small pool of repeated words, plus a directed pass writing into every slot the word held by every other slot, compared with an array model after every operation; \
         distinct = histories + tuples (seeded histories differ with overwhelming probability; not hashed)",
        n_hist
    );
    rep
}

fn merge_x(rep: &mut Rep, xs: Vec<X>, floors: bool) {
    let mut acc = mk();
    for x in xs {
        for n in 0..8 {
            for s in 0..7 {
                acc.setter_ops[n][s] += x.setter_ops[n][s];
                acc.getter_reads[n][s] += x.getter_reads[n][s];
            }
            for f in 0..4 {
                acc.ctor_ops[n][f] += x.ctor_ops[n][f];
            }
        }
        acc.histories += x.histories;
        acc.ops += x.ops;
        acc.tuples += x.tuples;
    }
    rep.add("histories", acc.histories);
    rep.add("operations", acc.ops);
    rep.add("selection_index_tuples", acc.tuples);
    let mut setters_seen = 0;
    let mut getters_seen = 0;
    let mut ctors_seen = 0;
    for n in 2..=7 {
        for s in 0..n {
            rep.add(&format!("size{}.set_slot{}", n, s), acc.setter_ops[n][s]);
            rep.add(&format!("size{}.read_slot{}", n, s), acc.getter_reads[n][s]);
        }
        for f in 0..ctor_forms(n) {
            rep.add(&format!("ctor[{}]", CTOR_NAMES[n][f]), acc.ctor_ops[n][f]);
        }
    }
    for n in 2..=7 {
        for s in 0..n {
            setters_seen += (rep.get(&format!("size{}.set_slot{}", n, s)) > 0) as u64;
            getters_seen += (rep.get(&format!("size{}.read_slot{}", n, s)) > 0) as u64;
        }
        for f in 0..ctor_forms(n) {
            ctors_seen += (rep.get(&format!("ctor[{}]", CTOR_NAMES[n][f])) > 0) as u64;
        }
    }
    if floors {
        rep.floor("setters observed (of 27)", setters_seen, 27);
        rep.floor("accessors observed (of 27)", getters_seen, 27);
        rep.floor("constructor forms observed (of 18)", ctors_seen, 18);
        rep.floor("selection index tuples", rep.get("selection_index_tuples"), 7776 + 16807);
    }
}

pub fn replay(_ctx: &Ctx, inp: &Input, _clause: &str) -> Rep {
    let mut rep = Rep::new();
    let mut st = St { rep: Rep::new(), x: mk(), cur: [0; 8], cur_len: 0, cur_what: "" };
    match inp {
        Input::Ops(v) if v.len() >= 2 && v[0].starts_with('n') => {
            let n: usize = v[0][1..].parse().unwrap_or(0);
            if !(2..=7).contains(&n) {
                bad_replay(&mut rep, "bad size");
            } else if v[1].starts_with("W:") {
                // selection witness: W:<words> P:<tuple>
                let w: Vec<u32> = v[1][2..].split('.').filter_map(|x| u32::from_str_radix(x, 16).ok()).collect();
                let p: Vec<u8> = v.get(2).map(|s| s[2..].split('.').filter_map(|x| x.parse().ok()).collect()).unwrap_or_default();
                if w.len() == n && p.len() == 5 && p.iter().all(|&k| (k as usize) < n) && (n == 6 || n == 7) {
                    let pp = [p[0], p[1], p[2], p[3], p[4]];
                    let r = drive::guard(|| {
                        if n == 6 {
                            Six::from([w[0], w[1], w[2], w[3], w[4], w[5]]).five_from_permutation(pp).to_arr()
                        } else {
                            Seven::from([w[0], w[1], w[2], w[3], w[4], w[5], w[6]]).five_from_permutation(pp).to_arr()
                        }
                    });
                    let want = [w[p[0] as usize], w[p[1] as usize], w[p[2] as usize], w[p[3] as usize], w[p[4] as usize]];
                    match r {
                        Ok(got) if got == want => {}
                        Ok(got) => st.rep.violation("slot-index selection returns the given words of the selected slots, in the given order", "five_from_permutation", inp.clone(), format!("{:08X?}", want), format!("{:08X?}", got)),
                        Err(m) => st.rep.violation("panic", "five_from_permutation", inp.clone(), "normal return".into(), m),
                    }
                } else {
                    bad_replay(&mut rep, "bad selection witness");
                }
            } else {
                let ops: Option<Vec<Op>> = v[1..].iter().map(|t| Op::decode(t)).collect();
                match ops {
                    Some(ops) => {
                        if let Err(m) = drive::guard(|| run_history(&mut st, n, &ops)) {
                            st.rep.violation("panic", "container history", inp.clone(), "normal return".into(), m);
                        }
                    }
                    None => bad_replay(&mut rep, "undecodable history"),
                }
            }
        }
        _ => bad_replay(&mut rep, "C19 wants ops: n<size>;<op>;..."),
    }
    st.rep.distinct = 1;
    rep.merge(st.rep);
    rep
}
