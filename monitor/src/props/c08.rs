//! C08 — suit shifting is a rank-preserving 4-cycle and never changes a hand's value.

use crate::common::{Ctx, Input, Rep};
use crate::drive::{self, factorial, merge_states, nth_permutation, par_run, par_subsets, permuted, selected, Rng, St};
use crate::model;
use crate::props::{bad_replay, crate_shift, crate_value, words_of};
use ckc_rs::cards::five::Five;
use ckc_rs::cards::HandRanker;
use ckc_rs::Shifty;

#[derive(Default)]
pub struct X {
    relabel: [u64; 24],
    flush_hands: u64,
    containers: [u64; 8],
    value_checks: [u64; 8],
}

fn mk() -> X {
    X::default()
}

/// model shift of a deck index: same rank, next suit (spades -> hearts -> diamonds -> clubs -> spades)
#[inline]
fn mshift(i: u8) -> u8 {
    if i >= 52 {
        i
    } else {
        model::idx(model::rank_of(i), (model::suit_of(i) + 1) % 4)
    }
}

/// slot-wise clause on one container given as deck indices (52 = blank)
fn check_container(st: &mut St<X>, c: &[u8]) {
    let w: Vec<u32> = c.iter().map(|&i| model::word(i)).collect();
    st.flight("shift_suit", &w);
    let got = crate_shift(&w);
    st.rep.evaluations += 1;
    st.x.containers[c.len()] += 1;
    let want: Vec<u32> = c.iter().map(|&i| model::word(mshift(i))).collect();
    if got != want {
        st.rep.violation(
            "shifting a hand shifts the card in every slot",
            &format!("{}::shift_suit", ["", "", "Two", "Three", "Four", "Five", "Six", "Seven"][c.len()]),
            Input::Idx(c.to_vec()),
            format!("{:08X?}", want),
            format!("{:08X?}", got),
        );
    }
}

/// value clause through the crate's own shift, 5..=7 distinct cards
fn check_value_shift(st: &mut St<X>, c: &[u8]) {
    let w: Vec<u32> = c.iter().map(|&i| model::word(i)).collect();
    st.flight("hand_rank_value before/after shift_suit", &w);
    let v0 = crate_value(&w);
    let vv0 = crate::props::crate_validated_value(&w); // validated value as dealt: the baseline for the validated entry point
    let mut cur = w.clone();
    st.rep.evaluations += 1;
    st.x.value_checks[c.len()] += 1;
    let mut midx: Vec<u8> = c.to_vec();
    for k in 1..=3 {
        cur = crate_shift(&cur);
        // the shifted hand must hold exactly the card-wise shifted cards (slot-wise clause, on every hand of this pass)
        for x in midx.iter_mut() {
            *x = mshift(*x);
        }
        if cur.iter().zip(midx.iter()).any(|(&w, &i)| w != model::word(i)) {
            st.rep.violation(
                "shifting a hand shifts the card in every slot",
                &format!("{}::shift_suit", ["", "", "", "", "", "Five", "Six", "Seven"][c.len()]),
                Input::Idx(c.to_vec()),
                format!("{:08X?} after {} shift(s)", midx.iter().map(|&i| model::word(i)).collect::<Vec<u32>>(), k),
                format!("{:08X?}", cur),
            );
            return;
        }
        let v = crate_value(&cur);
        let vv = crate::props::crate_validated_value(&cur);
        st.rep.evaluations += 3;
        if vv != vv0 {
            st.rep.violation(
                "the value of a hand is unchanged by shifting",
                &format!("{}::shift_suit + hand_rank_value_validated", ["", "", "", "", "", "Five", "Six", "Seven"][c.len()]),
                Input::Idx(c.to_vec()),
                format!("{}", vv0),
                format!("{} after {} shift(s)", vv, k),
            );
        }
        if v != v0 {
            st.rep.violation(
                "the value of a hand is unchanged by shifting",
                &format!("{}::shift_suit + hand_rank_value", ["", "", "", "", "", "Five", "Six", "Seven"][c.len()]),
                Input::Idx(c.to_vec()),
                format!("{}", v0),
                format!("{} after {} shift(s)", v, k),
            );
        }
    }
}

pub fn run(ctx: &Ctx) -> Rep {
    let mut rep = Rep::new();
    let seed = ctx.seed;
    // ---- single cards -----------------------------------------------------------
    for i in 0..=52u8 {
        let w = model::word(i);
        let s1 = w.shift_suit();
        rep.evaluations += 1;
        rep.distinct += 1;
        if s1 != model::word(mshift(i)) {
            rep.violation(
                "a card shifts to the same rank in the next suit; blank stays blank",
                "CKCNumber::shift_suit",
                Input::Idx(vec![i]),
                format!("{:08X} ({})", model::word(mshift(i)), model::card_name(mshift(i))),
                format!("{:08X}", s1),
            );
        }
        let s4 = w.shift_suit().shift_suit().shift_suit().shift_suit();
        rep.evaluations += 4;
        if s4 != w {
            rep.violation("four shifts restore the card", "CKCNumber::shift_suit x4", Input::Idx(vec![i]), format!("{:08X}", w), format!("{:08X}", s4));
        }
    }
    // ---- containers, slot-wise ------------------------------------------------------
    // all ordered arrays over {52, blank} for n = 2, 3; seeded for n = 4..7
    let mut units: Vec<(usize, u8)> = Vec::new();
    for n in [2usize, 3] {
        for a in 0..53u8 {
            units.push((n, a));
        }
    }
    let n_seeded = ctx.pick(500, 1_000_000, 5_000_000) as usize;
    let sc = par_run(ctx, units.len() + 64, mk, |st, ui| {
        if ui < units.len() {
            let (n, a) = units[ui];
            if ctx.smoke() && a % 13 != 0 {
                return;
            }
            if n == 2 {
                for b in 0..53u8 {
                    check_container(st, &[a, b]);
                    st.rep.distinct += 1;
                }
            } else {
                for b in 0..53u8 {
                    for c in 0..53u8 {
                        check_container(st, &[a, b, c]);
                        st.rep.distinct += 1;
                    }
                }
            }
        } else {
            let ch = ui - units.len();
            let mut rng = Rng::new(seed, 0xC08_0000 + ch as u64);
            for _ in 0..(n_seeded / 64) {
                for n in 4..=7usize {
                    let mut c = [0u8; 7];
                    for s in 0..n {
                        c[s] = rng.below(53) as u8;
                    }
                    check_container(st, &c[..n]);
                }
            }
        }
    });
    let (rc, xc) = merge_states(sc);
    rep.merge(rc);

    // ---- five cards under all 24 suit relabellings (harness-applied) ----------------
    let perms4: Vec<[u8; 8]> = (0..factorial(4)).map(|k| nth_permutation(4, k)).collect();
    let us = if ctx.smoke() { 331 } else { 1 };
    let s5 = par_subsets::<5, X, _, _>(ctx, us, mk, |st, c, _| {
        st.rep.distinct += 1;
        let w = words_of(c);
        st.flight("Five::hand_rank_value under suit relabelling", &w);
        let v0 = Five::from(w).hand_rank_value();
        st.rep.evaluations += 1;
        let s0 = model::suit_of(c[0]);
        if c.iter().all(|&i| model::suit_of(i) == s0) {
            st.x.flush_hands += 1;
        }
        for (pi, p) in perms4.iter().enumerate().skip(1) {
            let mut r = [0u8; 5];
            for k in 0..5 {
                r[k] = model::idx(model::rank_of(c[k]), p[model::suit_of(c[k]) as usize]);
            }
            let v = Five::from(words_of(&r)).hand_rank_value();
            st.rep.evaluations += 1;
            st.x.relabel[pi] += 1;
            if v != v0 {
                st.rep.violation(
                    "the value is unchanged by any consistent relabelling of the four suits",
                    "Five::hand_rank_value",
                    Input::Idx(c.to_vec()),
                    format!("{} (as dealt)", v0),
                    format!("{} for {} (suits mapped by {:?})", v, model::hand_name(&r), &p[..4]),
                );
            }
        }
        // the same in two seeded slot orders, through the other five-card entry points as well (the free
        // function and validated ranking must be as suit-blind as the trait method, in any arrangement)
        let mut rng = Rng::new(seed, drive::hand_code(c) ^ 0x8585);
        for _ in 0..2 {
            let pc = permuted(c, &mut rng);
            for p in perms4.iter() {
                let mut r = [0u8; 5];
                for k in 0..5 {
                    r[k] = model::idx(model::rank_of(pc[k]), p[model::suit_of(pc[k]) as usize]);
                }
                let wr = words_of(&r);
                let h = Five::from(wr);
                let got = [h.hand_rank_value(), ckc_rs::evaluate::five_cards(wr), h.hand_rank_value_validated()];
                st.rep.evaluations += 3;
                for (k, &v) in got.iter().enumerate() {
                    if v != v0 {
                        st.rep.violation(
                            "the value is unchanged by any consistent relabelling of the four suits",
                            ["Five::hand_rank_value", "evaluate::five_cards", "Five::hand_rank_value_validated"][k],
                            Input::Idx(r.to_vec()),
                            format!("{} (value of {} as dealt)", v0, model::hand_name(c)),
                            format!("{} for {}", v, model::hand_name(&r)),
                        );
                    }
                }
            }
        }
        // and through the crate's own shift
        if selected(c, seed, 0x85, 4) {
            check_value_shift(st, c);
        }
        if st.rep.want_sample() && selected(c, seed, 0x8a, 500_009) {
            st.rep.sample(format!("{} value {} ; shifted {:08X?} value {}", model::hand_name(c), v0, crate_shift(&w), crate_value(&crate_shift(&w))));
        }
    });
    let (r5, x5) = merge_states(s5);
    let n5 = r5.distinct;
    rep.merge(r5);

    // ---- six and seven cards under the three non-trivial shifts ---------------------
    let rate6 = ctx.pick(1, 1, 1);
    let rate7 = ctx.pick(1, 4, 1);
    let leg_div: u64 = if ctx.leg == "checked" && !ctx.thorough() && !ctx.smoke() { 4 } else { 1 };
    let (rate6, rate7) = (rate6 * leg_div, rate7 * leg_div);
    let s6 = par_subsets::<6, X, _, _>(ctx, us, mk, |st, c, _| {
        if !selected(c, seed, 0x86, rate6) {
            return;
        }
        st.rep.distinct += 1;
        if selected(c, seed, 0x87, 4) {
            let mut rng = Rng::new(seed, drive::hand_code(c) ^ 0x8686);
            let p = permuted(c, &mut rng);
            check_value_shift(st, &p);
        } else {
            check_value_shift(st, c);
        }
    });
    let (r6, x6) = merge_states(s6);
    let n6 = r6.distinct;
    rep.merge(r6);
    let s7 = par_subsets::<7, X, _, _>(ctx, us, mk, |st, c, _| {
        // every hand with six or more cards of one suit (274,560 hands; the ones whose value is most sensitive
        // to which suit it is) under the three shifts in 8 seeded slot orders, whatever the sampling below decides
        if drive::max_suit_count(c) >= 6 && !ctx.smoke() {
            let mut rng = Rng::new(seed, drive::hand_code(c) ^ 0x8A8A);
            for _ in 0..8 {
                let p = permuted(c, &mut rng);
                check_value_shift(st, &p);
            }
        }
        if !selected(c, seed, 0x88, rate7) {
            return;
        }
        st.rep.distinct += 1;
        if selected(c, seed, 0x89, 4) {
            let mut rng = Rng::new(seed, drive::hand_code(c) ^ 0x8787);
            let p = permuted(c, &mut rng);
            check_value_shift(st, &p);
        } else {
            check_value_shift(st, c);
        }
    });
    let (r7, x7) = merge_states(s7);
    let n7 = r7.distinct;
    rep.merge(r7);

    let mut acc = mk();
    for x in xc.into_iter().chain(x5).chain(x6).chain(x7) {
        for k in 0..24 {
            acc.relabel[k] += x.relabel[k];
        }
        acc.flush_hands += x.flush_hands;
        for k in 0..8 {
            acc.containers[k] += x.containers[k];
            acc.value_checks[k] += x.value_checks[k];
        }
    }
    rep.add("five_card_hands", n5);
    rep.add("six_card_hands", n6);
    rep.add("seven_card_hands", n7);
    rep.add("five_card_hands_with_one_suit(the only ones where suits matter)", acc.flush_hands);
    rep.add("min.relabelling_count", *acc.relabel[1..].iter().min().unwrap());
    for n in 2..=7 {
        rep.add(&format!("size{}.containers_shifted_slotwise", n), acc.containers[n]);
    }
    for n in 5..=7 {
        rep.add(&format!("size{}.hands_value_checked_under_3_shifts", n), acc.value_checks[n]);
    }
    if !ctx.smoke() {
        rep.floor("five-card hands", n5, 2_598_960);
        rep.floor("six-card hands", n6, 20_358_520 / rate6 / 2);
        rep.floor("seven-card hands", n7, 133_784_560 / rate7 / 2);
        rep.floor("every relabelling applied", *acc.relabel[1..].iter().min().unwrap(), 2_598_960);
        for n in 2..=7 {
            rep.floor(&format!("containers of size {}", n), acc.containers[n], 1000);
        }
        rep.exhaustive = Some(rate6 == 1 && rate7 == 1);
    }
    rep.rule = format!(
        "53 single words; every ordered array over {{52 cards, blank}} for sizes 2 and 3 and {} seeded arrays per size 4..7 for the slot-wise clause; \
         every five-card hand under all 24 suit relabellings; every six-card hand and {} seven-card hands under the crate's three non-trivial shifts \
         (a quarter of them in a seeded slot order); distinct = hands enumerated once each",
        n_seeded,
        if rate7 == 1 { "all".to_string() } else { format!("a seeded 1-in-{} of the", rate7) }
    );
    rep
}

pub fn replay(_ctx: &Ctx, inp: &Input, _clause: &str) -> Rep {
    let mut rep = Rep::new();
    let mut st = St { rep: Rep::new(), x: mk(), cur: [0; 8], cur_len: 0, cur_what: "" };
    let r = drive::guard(|| match inp {
        Input::Idx(v) if v.len() == 1 && v[0] <= 52 => {
            let w = model::word(v[0]);
            if w.shift_suit() != model::word(mshift(v[0])) {
                st.rep.violation("a card shifts to the same rank in the next suit; blank stays blank", "CKCNumber::shift_suit", inp.clone(), format!("{:08X}", model::word(mshift(v[0]))), format!("{:08X}", w.shift_suit()));
            }
            if w.shift_suit().shift_suit().shift_suit().shift_suit() != w {
                st.rep.violation("four shifts restore the card", "CKCNumber::shift_suit x4", inp.clone(), format!("{:08X}", w), "".into());
            }
        }
        Input::Idx(v) if (2..=7).contains(&v.len()) && v.iter().all(|&i| i <= 52) => {
            check_container(&mut st, v);
            let mut s = v.clone();
            s.sort_unstable();
            let distinct_cards = v.iter().all(|&i| i < 52) && !s.windows(2).any(|w| w[0] == w[1]);
            if v.len() >= 5 && distinct_cards {
                check_value_shift(&mut st, v);
                if v.len() == 5 {
                    let v0 = Five::from(words_of(&[v[0], v[1], v[2], v[3], v[4]])).hand_rank_value();
                    for k in 0..24 {
                        let p = nth_permutation(4, k);
                        let r: Vec<u8> = v.iter().map(|&i| model::idx(model::rank_of(i), p[model::suit_of(i) as usize])).collect();
                        let wr = words_of(&[r[0], r[1], r[2], r[3], r[4]]);
                        let hh = Five::from(wr);
                        for (e, vv) in [("Five::hand_rank_value", hh.hand_rank_value()), ("evaluate::five_cards", ckc_rs::evaluate::five_cards(wr)), ("Five::hand_rank_value_validated", hh.hand_rank_value_validated())] {
                            if vv != v0 {
                                st.rep.violation("the value is unchanged by any consistent relabelling of the four suits", e, inp.clone(), format!("{}", v0), format!("{} for {}", vv, model::hand_name(&r)));
                            }
                        }
                    }
                }
            }
        }
        _ => bad_replay(&mut st.rep, "C08 wants idx: 1..7 deck indices"),
    });
    if let Err(msg) = r {
        st.rep.violation("panic", "shift_suit", inp.clone(), "normal return".into(), msg);
    }
    st.rep.distinct = 1;
    rep.merge(st.rep);
    rep
}
