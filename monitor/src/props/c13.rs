//! C13 — flush, straight and wheel predicates agree with the hand's actual category.

#![allow(deprecated)]

use crate::common::{Ctx, Input, Rep};
use crate::drive::{self, factorial, merge_states, nth_permutation, par_subsets, permuted, Rng, St};
use crate::model::{self, Model};
use crate::props::{bad_replay, words_of};
use ckc_rs::cards::five::Five;
use ckc_rs::cards::HandRanker;
use ckc_rs::evaluate;
use ckc_rs::hand_rank::HandRankName;

#[derive(Default)]
pub struct X {
    cat: [u64; 9],
    span5_by_cat: [u64; 9],
    t_flush: u64,
    t_straight: u64,
    t_sf: u64,
    t_wheel: u64,
    orders: u64,
}

fn mk() -> X {
    X::default()
}

/// all predicate clauses for one slot arrangement; `key` is the rules key of the cards
#[inline]
fn check(st: &mut St<X>, c: &[u8; 5], key: u32) {
    let w = words_of(c);
    st.flight("Five predicates", &w);
    let h = Five::from(w);
    let cat = model::key_cat(key);
    let one_suit = c.iter().all(|&i| model::suit_of(i) == model::suit_of(c[0]));
    let is_straight_by_rules = cat == model::CAT_STRAIGHT || cat == model::CAT_SF;
    let wheel_by_rules = is_straight_by_rules && model::key_t(key, 0) == 3;
    let got = [h.is_flush(), h.is_straight(), h.is_straight_flush(), h.is_wheel()];
    let want = [one_suit, is_straight_by_rules, one_suit && is_straight_by_rules, wheel_by_rules];
    st.rep.evaluations += 4;
    st.x.orders += 1;
    const NAMES: [&str; 4] = ["Five::is_flush", "Five::is_straight", "Five::is_straight_flush", "Five::is_wheel"];
    const CLAUSES: [&str; 4] = [
        "is_flush() <=> all five cards share a suit",
        "is_straight() <=> five distinct consecutive ranks (ace may play low)",
        "is_straight_flush() <=> flush and straight",
        "is_wheel() <=> the ranks are 5-4-3-2-A",
    ];
    for k in 0..4 {
        if got[k] != want[k] {
            st.rep.violation(CLAUSES[k], NAMES[k], Input::Idx(c.to_vec()), format!("{} ({})", want[k], Model::category_name_of_key(key)), format!("{}", got[k]));
        }
    }
    // agreement with the category obtained by ranking the same hand
    let name = h.hand_rank().name;
    st.rep.evaluations += 1;
    let name_flushy = name == HandRankName::Flush || name == HandRankName::StraightFlush;
    let name_straighty = name == HandRankName::Straight || name == HandRankName::StraightFlush;
    if got[0] != name_flushy || got[1] != name_straighty || got[2] != (name == HandRankName::StraightFlush) || (got[3] && !name_straighty) {
        st.rep.violation(
            "the predicates agree with the category obtained by ranking the same hand",
            "Five::is_* vs Five::hand_rank().name",
            Input::Idx(c.to_vec()),
            format!("consistent with {:?}", name),
            format!("flush {} straight {} straight_flush {} wheel {}", got[0], got[1], got[2], got[3]),
        );
    }
    // the deprecated free functions agree with the methods
    let ff = evaluate::is_flush(w);
    let fo = evaluate::or_rank_bits(w);
    st.rep.evaluations += 2;
    if ff != got[0] {
        st.rep.violation("the deprecated free functions agree with the methods", "evaluate::is_flush", Input::Idx(c.to_vec()), format!("{}", got[0]), format!("{}", ff));
    }
    if fo != h.or_rank_bits() as usize {
        st.rep.violation("the deprecated free functions agree with the methods", "evaluate::or_rank_bits", Input::Idx(c.to_vec()), format!("{:#x}", h.or_rank_bits()), format!("{:#x}", fo));
    }
}

pub fn run(ctx: &Ctx) -> Rep {
    let m = Model::build();
    let mut rep = Rep::new();
    if let Err(e) = m.self_check() {
        rep.self_check(&e, false);
        return rep;
    }
    rep.self_check("model: 7462 classes, category populations, endpoints", true);
    let seed = ctx.seed;
    // every slot order of every hand: thorough, and the fast leg of quick (2.2 G calls, ~5 s); the checked leg of
    // quick uses the sampled orders below
    let all_orders = ctx.thorough() || (ctx.leg != "checked" && !ctx.smoke());
    let perms: Vec<[u8; 8]> = (0..factorial(5)).map(|k| nth_permutation(5, k)).collect();
    let us = if ctx.smoke() { 331 } else { 1 };
    let s = par_subsets::<5, X, _, _>(ctx, us, mk, |st, c, _| {
        st.rep.distinct += 1;
        let key = model::key5(c);
        let cat = model::key_cat(key) as usize;
        st.x.cat[cat] += 1;
        let mut lo = 12;
        let mut hi = 0;
        for &i in c.iter() {
            lo = lo.min(model::rank_of(i));
            hi = hi.max(model::rank_of(i));
        }
        if hi - lo == 4 {
            st.x.span5_by_cat[cat] += 1;
        }
        // every slot order for all hands in the thorough tier; in quick for every straight, flush and
        // straight flush (15,348 hands: the only ones on which the predicates are ever true) and a seeded 1-in-64 of the rest
        let special = cat == model::CAT_STRAIGHT as usize || cat == model::CAT_FLUSH as usize || cat == model::CAT_SF as usize;
        if all_orders || special || drive::selected(c, seed, 0x1364, 64) {
            for p in &perms {
                let a = [c[p[0] as usize], c[p[1] as usize], c[p[2] as usize], c[p[3] as usize], c[p[4] as usize]];
                check(st, &a, key);
            }
        } else {
            check(st, c, key);
            check(st, &[c[4], c[3], c[2], c[1], c[0]], key);
            let mut rng = Rng::new(seed, drive::hand_code(c) ^ 0x1313);
            for _ in 0..6 {
                let a = permuted(c, &mut rng);
                check(st, &a, key);
            }
        }
        // truth counts on the canonical arrangement
        let h = Five::from(words_of(c));
        st.x.t_flush += h.is_flush() as u64;
        st.x.t_straight += h.is_straight() as u64;
        st.x.t_sf += h.is_straight_flush() as u64;
        st.x.t_wheel += h.is_wheel() as u64;
        if st.rep.want_sample() && drive::selected(c, seed, 0x13, 300_007) {
            st.rep.sample(format!(
                "{} -> flush {} straight {} sf {} wheel {} ; by rules {}",
                model::hand_name(c),
                h.is_flush(),
                h.is_straight(),
                h.is_straight_flush(),
                h.is_wheel(),
                Model::category_name_of_key(key)
            ));
        }
    });
    let (r, xs) = merge_states(s);
    let n = r.distinct;
    rep.merge(r);
    let mut acc = mk();
    for x in xs {
        for k in 0..9 {
            acc.cat[k] += x.cat[k];
            acc.span5_by_cat[k] += x.span5_by_cat[k];
        }
        acc.t_flush += x.t_flush;
        acc.t_straight += x.t_straight;
        acc.t_sf += x.t_sf;
        acc.t_wheel += x.t_wheel;
        acc.orders += x.orders;
    }
    const CATS: [&str; 9] = ["HighCard", "Pair", "TwoPair", "ThreeOfAKind", "Straight", "Flush", "FullHouse", "FourOfAKind", "StraightFlush"];
    for k in 0..9 {
        rep.add(&format!("hands.{}", CATS[k]), acc.cat[k]);
        rep.add(&format!("hands_with_rank_span_of_five.{}", CATS[k]), acc.span5_by_cat[k]);
    }
    rep.add("true.is_flush", acc.t_flush);
    rep.add("true.is_straight", acc.t_straight);
    rep.add("true.is_straight_flush", acc.t_sf);
    rep.add("true.is_wheel", acc.t_wheel);
    rep.add("slot_arrangements_checked", acc.orders);
    let paired_span5: u64 = [1usize, 2, 3, 6, 7].iter().map(|&k| acc.span5_by_cat[k]).sum();
    rep.add("paired_hands_with_rank_span_of_five(where a span test is wrong)", paired_span5);
    if !ctx.smoke() {
        rep.floor("five-card hands", n, 2_598_960);
        rep.floor("paired hands with a rank span of five", paired_span5, 58_824);
        rep.exhaustive = Some(true);
    }
    rep.rule = format!(
        "every five-card hand (enumerated once = distinct) in {}; four predicates against suits/ranks by the rules, against the ranked category, \
         and the two deprecated free functions against the methods",
        if all_orders { "all 120 slot orders" } else { "canonical, reversed and six seeded slot orders (all 120 for every straight / flush / straight flush and a seeded 1-in-64 of the other hands)" }
    );
    rep
}

pub fn replay(_ctx: &Ctx, inp: &Input, _clause: &str) -> Rep {
    let mut rep = Rep::new();
    let mut st = St { rep: Rep::new(), x: mk(), cur: [0; 8], cur_len: 0, cur_what: "" };
    match inp {
        Input::Idx(v) if v.len() == 5 && v.iter().all(|&i| i < 52) => {
            let c = [v[0], v[1], v[2], v[3], v[4]];
            let mut s = c;
            s.sort_unstable();
            if s.windows(2).any(|w| w[0] == w[1]) {
                bad_replay(&mut rep, "cards not distinct");
            } else if let Err(msg) = drive::guard(|| check(&mut st, &c, model::key5(&c))) {
                st.rep.violation("panic", "Five predicates", inp.clone(), "normal return".into(), msg);
            }
        }
        _ => bad_replay(&mut rep, "C13 wants idx: five distinct deck indices"),
    }
    st.rep.distinct = 1;
    rep.merge(st.rep);
    rep
}
