//! C07 — hand ranks form a lawful total order in which stronger hands are greater.
//!
//! All 2^32 ordered pairs of converted 16-bit values. Transitivity over all 2^48
//! triples is settled through an integer key k(a) = #{c : from(c) < from(a)}
//! built in a first pass from the crate's own cmp: an order that embeds into the
//! integers (cmp(x,y) == k(a).cmp(k(b)) for every pair) is transitive.

use crate::common::{Ctx, Input, Rep};
use crate::drive::{self, merge_states, par_run, St};
use crate::props::bad_replay;
use ckc_rs::hand_rank::{HandRank, HandRankClass, HandRankName};
use std::cmp::Ordering;

#[derive(Default)]
pub struct X {
    quad: [u64; 4], // valid/valid, valid/invalid, invalid/valid, invalid/invalid
    equal_results: u64,
    keys: Vec<(u16, u32)>,
}

fn mk() -> X {
    X::default()
}

fn valid(v: u16) -> bool {
    (1..=7462).contains(&v)
}

#[inline]
fn check_pair(st: &mut St<X>, ranks: &[HandRank], keys: Option<&[u32]>, a: u16, b: u16) {
    check_pair_ctx(st, ranks, keys, a, b, None)
}

/// `ctx` = (predecessor, which of a/b was converted right after it): recorded so that the witness can be replayed
#[inline]
fn check_pair_ctx(st: &mut St<X>, ranks: &[HandRank], keys: Option<&[u32]>, a: u16, b: u16, ctx: Option<(u16, u16)>) {
    let x = &ranks[a as usize];
    let y = &ranks[b as usize];
    let c = x.cmp(y);
    st.rep.evaluations += 1;
    let q = (if valid(a) { 0 } else { 2 }) + (if valid(b) { 0 } else { 1 });
    st.x.quad[q] += 1;
    if c == Ordering::Equal {
        st.x.equal_results += 1;
    }
    let bad = |st: &mut St<X>, clause: &str, entry: &str, exp: String, obs: String| {
        match ctx {
            // [predecessor, value converted right after it, a, b]
            Some((pred, stale)) => st.rep.violation(clause, &format!("{} (with from({}) converted right after from({}))", entry, stale, pred), Input::U16s(vec![pred, stale, a, b]), exp, obs),
            None => st.rep.violation(clause, entry, Input::U16s(vec![a, b]), exp, obs),
        }
    };
    let rc = y.cmp(x);
    if c != rc.reverse() {
        bad(st, "cmp(x,y) == cmp(y,x).reverse()", "HandRank::cmp", format!("{:?}", rc.reverse()), format!("{:?}", c));
    }
    if (c == Ordering::Equal) != (x == y) {
        bad(st, "two ranks compare equal only when they are equal", "HandRank::cmp vs ==", format!("x == y is {}", x == y), format!("cmp = {:?}", c));
    }
    match (valid(a), valid(b)) {
        (true, true) => {
            let want = b.cmp(&a); // lower value (stronger) compares greater
            if c != want {
                bad(st, "a valid rank with a lower value compares greater", "HandRank::cmp", format!("{:?}", want), format!("{:?}", c));
            }
        }
        (false, true) => {
            if c != Ordering::Less {
                bad(st, "every invalid rank compares below every valid one", "HandRank::cmp", "Less".into(), format!("{:?}", c));
            }
        }
        (true, false) => {
            if c != Ordering::Greater {
                bad(st, "every invalid rank compares below every valid one", "HandRank::cmp", "Greater".into(), format!("{:?}", c));
            }
        }
        (false, false) => {}
    }
    if x.partial_cmp(y) != Some(c) {
        bad(st, "partial_cmp == Some(cmp)", "HandRank::partial_cmp", format!("Some({:?})", c), format!("{:?}", x.partial_cmp(y)));
    }
    let ops = [x < y, x <= y, x > y, x >= y];
    let want = [c == Ordering::Less, c != Ordering::Greater, c == Ordering::Greater, c != Ordering::Less];
    if ops != want {
        bad(st, "the four comparison operators agree with cmp", "HandRank < <= > >=", format!("{:?} for cmp {:?}", want, c), format!("{:?}", ops));
    }
    // `!=` is a separate trait method (PartialEq::ne) and max / min / clamp are separate Ord methods: a
    // hand-written one must still say what `==` and cmp say
    if (x != y) == (x == y) {
        bad(st, "comparison is consistent with equality (x != y is the negation of x == y)", "HandRank != vs ==", format!("x != y is {}", !(x == y)), format!("{}", x != y));
    }
    let (mx, mn) = ((*x).max(*y), (*x).min(*y));
    let (want_max, want_min) = if c == Ordering::Greater { (x, y) } else { (y, x) };
    if mx != *want_max || mn != *want_min || mx.value != want_max.value || mn.value != want_min.value {
        bad(st, "max / min agree with cmp", "HandRank::max / min", format!("max value {} min value {}", want_max.value, want_min.value), format!("max value {} min value {}", mx.value, mn.value));
    }
    if let Some(k) = keys {
        let kc = k[a as usize].cmp(&k[b as usize]);
        if kc != c {
            bad(
                st,
                "the order embeds into the integers (hence is transitive on all triples)",
                "HandRank::cmp",
                format!("{:?} (keys {} vs {})", kc, k[a as usize], k[b as usize]),
                format!("{:?}", c),
            );
        }
    }
}

/// Some comparison form of `a`, `b` that contradicts `a.cmp(&b)` (or variant identity), if any.
fn ops_disagree<T: Ord + Copy>(a: T, b: T, same_variant: bool) -> Option<&'static str> {
    let c = a.cmp(&b);
    if b.cmp(&a) != c.reverse() {
        return Some("cmp (antisymmetry)");
    }
    if a.partial_cmp(&b) != Some(c) {
        return Some("partial_cmp");
    }
    if [a < b, a <= b, a > b, a >= b] != [c == Ordering::Less, c != Ordering::Greater, c == Ordering::Greater, c != Ordering::Less] {
        return Some("< <= > >=");
    }
    if (a == b) != (c == Ordering::Equal) || (a == b) != same_variant {
        return Some("==");
    }
    if (a != b) == (a == b) {
        return Some("!=");
    }
    let (mx, mn) = (a.max(b), a.min(b));
    let (wmx, wmn) = if c == Ordering::Greater { (a, b) } else { (b, a) };
    if mx.cmp(&wmx) != Ordering::Equal || mn.cmp(&wmn) != Ordering::Equal {
        return Some("max / min");
    }
    None
}

pub fn run(ctx: &Ctx) -> Rep {
    let mut rep = Rep::new();
    let ranks: Vec<HandRank> = (0..=65535u32).map(|v| HandRank::from(v as u16)).collect();
    let step = if ctx.smoke() { 257 } else { 1 };
    let vals: Vec<u16> = (0..=65535u32).step_by(step).map(|v| v as u16).collect();
    // ---- pass 1: integer keys from the crate's own cmp ------------------------
    let chunks: Vec<&[u16]> = vals.chunks(256).collect();
    let s1 = par_run(ctx, chunks.len(), mk, |st, ci| {
        for &a in chunks[ci] {
            let x = &ranks[a as usize];
            let mut k = 0u32;
            for &c in &vals {
                if ranks[c as usize].cmp(x) == Ordering::Less {
                    k += 1;
                }
            }
            st.rep.evaluations += vals.len() as u64;
            st.x.keys.push((a, k));
        }
    });
    let (r1, x1) = merge_states(s1);
    rep.merge(r1);
    let mut keys = vec![0u32; 65536];
    for x in x1 {
        for (a, k) in x.keys {
            keys[a as usize] = k;
        }
    }
    let mut dk: Vec<u32> = vals.iter().map(|&v| keys[v as usize]).collect();
    dk.sort_unstable();
    dk.dedup();
    rep.add("distinct_integer_keys", dk.len() as u64);

    // ---- pass 2: every ordered pair, every clause -------------------------------
    let s2 = par_run(ctx, chunks.len(), mk, |st, ci| {
        for &a in chunks[ci] {
            for &b in &vals {
                check_pair(st, &ranks, Some(&keys), a, b);
            }
            st.rep.distinct += vals.len() as u64;
        }
        if st.rep.want_sample() && ci % 61 == 7 {
            let a = chunks[ci][0];
            let b = vals[(ci * 7919) % vals.len()];
            st.rep.sample(format!("from({}) vs from({}) -> cmp {:?}, == {}", a, b, ranks[a as usize].cmp(&ranks[b as usize]), ranks[a as usize] == ranks[b as usize]));
        }
    });
    let (r2, x2) = merge_states(s2);
    rep.merge(r2);
    let mut acc = mk();
    for x in x2 {
        for k in 0..4 {
            acc.quad[k] += x.quad[k];
        }
        acc.equal_results += x.equal_results;
    }
    rep.add("pairs.valid_vs_valid", acc.quad[0]);
    rep.add("pairs.valid_vs_invalid", acc.quad[1]);
    rep.add("pairs.invalid_vs_valid", acc.quad[2]);
    rep.add("pairs.invalid_vs_invalid", acc.quad[3]);
    rep.add("pairs_comparing_Equal", acc.equal_results);

    // ---- ranks converted in a hostile call context ------------------------------------------------------
    // The table above converts the values in ascending order. Here every value is converted again right after
    // a related predecessor (same low bits / a power of two apart / byte-swapped / itself); if that rank is not
    // identical to the table's, it is compared against the whole table with every clause.
    {
        let all_preds = ctx.thorough() && !ctx.smoke();
        let s3 = par_run(ctx, chunks.len(), mk, |st, ci| {
            for &a in chunks[ci] {
                let mut preds: Vec<u16> = vec![a, !a, a.swap_bytes()];
                for j in 0..16u32 {
                    preds.push(a ^ (1 << j));
                    preds.push(a.wrapping_add(1 << j));
                    preds.push(a.wrapping_sub(1 << j));
                }
                if all_preds {
                    preds = vals.clone();
                }
                for b in preds {
                    let _ = HandRank::from(b);
                    let x = HandRank::from(a);
                    st.rep.evaluations += 2;
                    st.rep.add("ranks_converted_after_a_related_predecessor", 1);
                    let t = &ranks[a as usize];
                    if x != *t || x.cmp(t) != Ordering::Equal {
                        st.rep.violation(
                            "two conversions of the same value are equal and compare Equal",
                            "HandRank::from / cmp",
                            Input::U16s(vec![b, a]),
                            format!("{:?}", t),
                            format!("{:?} when converted right after {}", x, b),
                        );
                        // and what that does to the order: the stale rank against every table entry
                        let mut probe = ranks.clone();
                        probe[a as usize] = x;
                        for &c in &vals {
                            check_pair_ctx(st, &probe, None, a, c, Some((b, a)));
                            check_pair_ctx(st, &probe, None, c, a, Some((b, a)));
                        }
                    }
                }
            }
        });
        let (r3, _) = merge_states(s3);
        rep.merge(r3);
    }

    // ---- Ord::clamp: the one Ord method that takes three ranks -------------------------------------------
    // (a lawful total order clamps x into [lo, hi] as: hi if x > hi, lo if x < lo, else x; an overridden clamp that
    // decides from raw values instead of cmp contradicts the order). Bounds from a set of boundary values (both
    // blanks of the value range, the first and last valid values, every class boundary neighbourhood, invalid
    // values) x every 16-bit value as x.
    if !ctx.smoke() {
        let mut bounds: Vec<u16> = vec![0, 1, 2, 10, 11, 166, 167, 322, 323, 1599, 1600, 1609, 1610, 2467, 2468, 3325, 3326, 6185, 6186, 7461, 7462, 7463, 7464, 8192, 8193, 32767, 32768, 65534, 65535];
        let mut rngb = drive::Rng::new(ctx.seed, 0xC07_C1A);
        for _ in 0..35 {
            bounds.push(rngb.below(65536) as u16);
        }
        bounds.sort_unstable();
        bounds.dedup();
        let mut pairs: Vec<(u16, u16)> = Vec::new();
        for &lo in &bounds {
            for &hi in &bounds {
                if ranks[lo as usize].cmp(&ranks[hi as usize]) != Ordering::Greater {
                    pairs.push((lo, hi)); // clamp requires lo <= hi (it may panic otherwise)
                }
            }
        }
        let sc = par_run(ctx, pairs.len(), mk, |st, pi| {
            let (lo, hi) = pairs[pi];
            let (l, h) = (ranks[lo as usize], ranks[hi as usize]);
            for v in 0..=65535u16 {
                let x = ranks[v as usize];
                let got = x.clamp(l, h);
                let want = if x.cmp(&h) == Ordering::Greater {
                    h
                } else if x.cmp(&l) == Ordering::Less {
                    l
                } else {
                    x
                };
                st.rep.evaluations += 1;
                if got != want || got.value != want.value {
                    st.rep.violation(
                        "clamp agrees with cmp (Ord contract of a lawful total order)",
                        "HandRank::clamp",
                        Input::U16s(vec![v, lo, hi]),
                        format!("from({})", want.value),
                        format!("from({}) for from({}).clamp(from({}), from({}))", got.value, v, lo, hi),
                    );
                }
            }
            st.rep.add("clamp_bound_pairs_x_all_values", 1);
        });
        let (rc, _) = merge_states(sc);
        rep.merge(rc);
    }

    // ---- the enumerations: ordered strongest-first in step with the value -------
    let mut enum_pairs = 0u64;
    let names: Vec<HandRankName> = (0..=7463u16).map(|v| HandRank::determine_name(&v)).collect();
    let classes: Vec<HandRankClass> = (0..=7463u16).map(|v| HandRank::determine_class(&v)).collect();
    let inv_name = HandRank::from(0).name;
    let inv_class = HandRank::from(0).class;
    let estep = if ctx.smoke() { 53 } else { 1 };
    for v1 in (1..=7462usize).step_by(estep) {
        for v2 in (v1..=7462usize).step_by(estep) {
            enum_pairs += 1;
            if names[v1] > names[v2] {
                rep.violation(
                    "category enumeration ordered strongest-first in step with the value",
                    "HandRankName Ord",
                    Input::U16s(vec![v1 as u16, v2 as u16]),
                    format!("{:?} <= {:?}", names[v1], names[v2]),
                    "greater".into(),
                );
            }
            // every comparison form of the two enumerations must tell the same story (a hand-written PartialOrd,
            // PartialEq::ne or Ord::max on an enum would otherwise go unseen behind `>`)
            for (what, bad) in [("HandRankName", ops_disagree(names[v1], names[v2], names[v1] as u32 == names[v2] as u32)), ("HandRankClass", ops_disagree(classes[v1], classes[v2], classes[v1] as u32 == classes[v2] as u32))] {
                if let Some(form) = bad {
                    rep.violation(
                        "the enumerations are totally ordered consistently with equality, in every comparison form",
                        &format!("{} {}", what, form),
                        Input::U16s(vec![v1 as u16, v2 as u16]),
                        "all comparison forms agree with cmp and with variant identity".into(),
                        format!("{} disagrees for {:?}/{:?} vs {:?}/{:?}", form, names[v1], classes[v1], names[v2], classes[v2]),
                    );
                }
            }
            if classes[v1] > classes[v2] {
                rep.violation(
                    "class enumeration ordered strongest-first in step with the value",
                    "HandRankClass Ord",
                    Input::U16s(vec![v1 as u16, v2 as u16]),
                    format!("{:?} <= {:?}", classes[v1], classes[v2]),
                    "greater".into(),
                );
            }
        }
        if !(names[v1] < inv_name) || !(classes[v1] < inv_class) {
            rep.violation(
                "Invalid is the last (weakest) member of both enumerations",
                "HandRankName / HandRankClass Ord",
                Input::U16s(vec![v1 as u16, 0]),
                "valid member < Invalid".into(),
                format!("{:?} / {:?}", names[v1], classes[v1]),
            );
        }
    }
    // Ord::clamp on the two enumerations: every triple of distinct members (x clamped into [lo, hi], lo <= hi)
    {
        let mut members_n: Vec<HandRankName> = names.clone();
        members_n.sort();
        members_n.dedup();
        let mut members_c: Vec<HandRankClass> = classes.clone();
        members_c.sort();
        members_c.dedup();
        let mut triples = 0u64;
        fn clamp_ok<T: Ord + Copy>(x: T, lo: T, hi: T) -> bool {
            let want = if x.cmp(&hi) == Ordering::Greater {
                hi
            } else if x.cmp(&lo) == Ordering::Less {
                lo
            } else {
                x
            };
            x.clamp(lo, hi).cmp(&want) == Ordering::Equal
        }
        let cstep = if ctx.smoke() { 17 } else { 1 };
        for (li, &lo) in members_n.iter().enumerate() {
            for &hi in &members_n[li..] {
                for &x in &members_n {
                    triples += 1;
                    if !clamp_ok(x, lo, hi) {
                        rep.violation("clamp agrees with cmp (Ord contract) on the enumerations", "HandRankName::clamp", Input::Ops(vec![format!("{:?}.clamp({:?}, {:?})", x, lo, hi)]), "what cmp dictates".into(), format!("{:?}", x.clamp(lo, hi)));
                    }
                }
            }
        }
        for (li, &lo) in members_c.iter().enumerate().step_by(cstep) {
            for &hi in members_c[li..].iter().step_by(cstep) {
                for &x in &members_c {
                    triples += 1;
                    if !clamp_ok(x, lo, hi) {
                        rep.violation("clamp agrees with cmp (Ord contract) on the enumerations", "HandRankClass::clamp", Input::Ops(vec![format!("{:?}.clamp({:?}, {:?})", x, lo, hi)]), "what cmp dictates".into(), format!("{:?}", x.clamp(lo, hi)));
                    }
                }
            }
        }
        rep.evaluations += triples;
        rep.add("enumeration_clamp_triples", triples);
        rep.add("enumeration_members(HandRankName, HandRankClass)", (members_n.len() * 1000 + members_c.len()) as u64);
    }
    rep.evaluations += enum_pairs * 2;
    rep.add("enumeration_value_pairs", enum_pairs);
    if !ctx.smoke() {
        rep.floor("ordered pairs", rep.distinct, 1u64 << 32);
        rep.floor("distinct integer keys", dk.len() as u64, 65536);
        rep.floor("enumeration pairs", enum_pairs, 7462 * 7463 / 2);
        rep.exhaustive = Some(true);
    }
    rep.rule = "all 65,536 x 65,536 ordered pairs of HandRank::from(v) (distinct = pairs, each enumerated once), every clause on every pair, \
                after a first pass that derives an integer key per value from the crate's own cmp; all pairs v1 <= v2 in 1..=7462 for the two enumerations"
        .to_string();
    rep
}

pub fn replay(_ctx: &Ctx, inp: &Input, clause: &str) -> Rep {
    let mut rep = Rep::new();
    let mut st = St { rep: Rep::new(), x: mk(), cur: [0; 8], cur_len: 0, cur_what: "" };
    match inp {
        Input::U16s(v) if v.len() == 4 => {
            // [predecessor, stale-prone value, a, b]: rebuild the context, then the pair
            let mut ranks: Vec<HandRank> = (0..=65535u32).map(|v| HandRank::from(v as u16)).collect();
            let r = drive::guard(|| {
                let _ = HandRank::from(v[0]);
                ranks[v[1] as usize] = HandRank::from(v[1]);
                check_pair_ctx(&mut st, &ranks, None, v[2], v[3], Some((v[0], v[1])));
            });
            if let Err(msg) = r {
                st.rep.violation("panic", "HandRank::cmp", inp.clone(), "normal return".into(), msg);
            }
        }
        Input::U16s(v) if v.len() == 3 => {
            // [x, lo, hi]: the clamp clause
            let r = drive::guard(|| {
                let (x, l, h) = (HandRank::from(v[0]), HandRank::from(v[1]), HandRank::from(v[2]));
                let got = x.clamp(l, h);
                let want = if x.cmp(&h) == Ordering::Greater {
                    h
                } else if x.cmp(&l) == Ordering::Less {
                    l
                } else {
                    x
                };
                (got, want)
            });
            st.rep.evaluations += 1;
            match r {
                Ok((got, want)) => {
                    if got != want || got.value != want.value {
                        st.rep.violation("clamp agrees with cmp (Ord contract of a lawful total order)", "HandRank::clamp", inp.clone(), format!("from({})", want.value), format!("from({})", got.value));
                    }
                }
                Err(msg) => st.rep.violation("panic", "HandRank::clamp", inp.clone(), "normal return".into(), msg),
            }
        }
        Input::U16s(v) if v.len() == 2 => {
            let ranks: Vec<HandRank> = (0..=65535u32).map(|v| HandRank::from(v as u16)).collect();
            let (a, b) = (v[0], v[1]);
            let r = drive::guard(|| {
                if clause.contains("enumeration") {
                    let (n1, n2) = (HandRank::determine_name(&a), HandRank::determine_name(&b));
                    let (c1, c2) = (HandRank::determine_class(&a), HandRank::determine_class(&b));
                    if b == 0 {
                        if !(n1 < HandRank::from(0).name) || !(c1 < HandRank::from(0).class) {
                            st.rep.violation(clause, "enum Ord", inp.clone(), "valid member < Invalid".into(), format!("{:?} / {:?}", n1, c1));
                        }
                    } else if n1 > n2 || c1 > c2 {
                        st.rep.violation(clause, "enum Ord", inp.clone(), "<=".into(), format!("{:?}>{:?} or {:?}>{:?}", n1, n2, c1, c2));
                    }
                } else if clause.contains("embeds") {
                    // rebuild the two keys involved
                    let mut keys = vec![0u32; 65536];
                    for &t in &[a, b] {
                        keys[t as usize] = (0..=65535u32).filter(|&c| ranks[c as usize].cmp(&ranks[t as usize]) == Ordering::Less).count() as u32;
                    }
                    check_pair(&mut st, &ranks, Some(&keys), a, b);
                } else if clause.contains("same value") {
                    let _ = HandRank::from(a);
                    let x = HandRank::from(b);
                    if x != ranks[b as usize] || x.cmp(&ranks[b as usize]) != Ordering::Equal {
                        st.rep.violation(clause, "HandRank::from / cmp", inp.clone(), format!("{:?}", ranks[b as usize]), format!("{:?}", x));
                    }
                } else {
                    check_pair(&mut st, &ranks, None, a, b);
                }
            });
            if let Err(msg) = r {
                st.rep.violation("panic", "HandRank::cmp", inp.clone(), "normal return".into(), msg);
            }
        }
        _ => bad_replay(&mut rep, "C07 wants u16s: a pair of values"),
    }
    st.rep.distinct = 1;
    rep.merge(st.rep);
    rep
}
