//! C06 — hand rank name and class describe exactly the poker class of the value.
//!
//! Oracle: names(key) — the category and the class name derived from the
//! rules-based strength key by the regular grammar of the variant names,
//! compared with the Debug rendering of the crate's enums.

use crate::common::{Ctx, Input, Rep};
use crate::drive::{self, merge_states, par_run, par_subsets, permuted, selected, Rng, St};
use crate::model::{self, Model};
use crate::props::{bad_replay, words_of};
use ckc_rs::cards::five::Five;
use ckc_rs::cards::seven::Seven;
use ckc_rs::cards::six::Six;
use ckc_rs::cards::HandRanker;
use ckc_rs::hand_rank::{HandRank, HandRankClass, HandRankName};
use std::collections::{BTreeMap, HashSet};

pub struct X {
    name_cache: Vec<Option<String>>,
    class_cache: Vec<Option<String>>,
    classes_from_cards: HashSet<usize>,
    hands: [u64; 8],
}

fn mk() -> X {
    X { name_cache: vec![None; 16], class_cache: vec![None; 512], classes_from_cards: HashSet::new(), hands: [0; 8] }
}

fn name_str(x: &mut X, n: HandRankName) -> &str {
    let i = n as usize;
    if i >= x.name_cache.len() {
        x.name_cache.resize(i + 1, None);
    }
    if x.name_cache[i].is_none() {
        x.name_cache[i] = Some(format!("{:?}", n));
    }
    x.name_cache[i].as_deref().unwrap()
}

fn class_str(x: &mut X, c: HandRankClass) -> &str {
    let i = c as usize;
    if i >= x.class_cache.len() {
        x.class_cache.resize(i + 1, None);
    }
    if x.class_cache[i].is_none() {
        x.class_cache[i] = Some(format!("{:?}", c));
    }
    x.class_cache[i].as_deref().unwrap()
}

/// value clauses for one 16-bit value
fn check_value(st: &mut St<X>, names: &[(String, String)], v: u16) {
    let hr = HandRank::from(v);
    st.rep.evaluations += 1;
    let (ecat, ecls): (&str, &str) = if v >= 1 && (v as usize) < names.len() { (&names[v as usize].0, &names[v as usize].1) } else { ("Invalid", "Invalid") };
    let inp = || Input::U16s(vec![v]);
    if hr.value != v {
        st.rep.violation("HandRank::from(v).value == v", "HandRank::from", inp(), format!("{}", v), format!("{}", hr.value));
    }
    let gn = format!("{:?}", hr.name);
    let gc = format!("{:?}", hr.class);
    if gn != ecat {
        st.rep.violation("category of the value's poker class", "HandRank::from(v).name", inp(), ecat.to_string(), gn.clone());
    }
    if gc != ecls {
        st.rep.violation("class of the value's poker class", "HandRank::from(v).class", inp(), ecls.to_string(), gc.clone());
    }
    let invalid_expected = v == 0 || v > 7462;
    if hr.is_invalid() != invalid_expected {
        st.rep.violation("is_invalid() <=> v == 0 or v > 7462", "HandRank::is_invalid", inp(), format!("{}", invalid_expected), format!("{}", hr.is_invalid()));
    }
    if (gn == "Invalid") != invalid_expected || (gc == "Invalid") != invalid_expected {
        st.rep.violation(
            "name and class are both Invalid exactly when v == 0 or v > 7462",
            "HandRank::from",
            inp(),
            format!("invalid = {}", invalid_expected),
            format!("{} / {}", gn, gc),
        );
    }
    if !hr.is_a_valid_hand_rank() {
        st.rep.violation("a converted rank passes its own consistency test", "HandRank::is_a_valid_hand_rank", inp(), "true".into(), "false".into());
    }
    let dn = HandRank::determine_name(&v);
    let dc = HandRank::determine_class(&v);
    st.rep.evaluations += 3;
    if dn != hr.name || dc != hr.class {
        st.rep.violation(
            "determine_name / determine_class agree with the converted rank's fields",
            "HandRank::determine_name/determine_class",
            inp(),
            format!("{:?} / {:?}", hr.name, hr.class),
            format!("{:?} / {:?}", dn, dc),
        );
    }
}

/// card link: the rank reported for a hand describes the hand's actual cards
fn check_rank_of_cards(st: &mut St<X>, entry: &str, c: &[u8], hr: HandRank, key: u32, ordinal: u16) {
    st.rep.evaluations += 1;
    let ecat = Model::category_name_of_key(key);
    let ecls = Model::class_name_of_key(key);
    let ci = hr.class as usize;
    st.x.classes_from_cards.insert(ci);
    let ok_name = name_str(&mut st.x, hr.name) == ecat;
    let ok_class = class_str(&mut st.x, hr.class) == ecls;
    if !ok_name || !ok_class || hr.value != ordinal {
        st.rep.violation(
            "the reported category and class describe the hand's actual cards",
            entry,
            Input::Idx(c.to_vec()),
            format!("{} / {} (value {})", ecat, ecls, ordinal),
            format!("{:?} / {:?} (value {})", hr.name, hr.class, hr.value),
        );
    }
}

pub fn run(ctx: &Ctx) -> Rep {
    let m = Model::build();
    let mut rep = Rep::new();
    if let Err(e) = m.self_check() {
        rep.self_check(&e, false);
        return rep;
    }
    let names = m.names_by_ordinal();
    // oracle self-check: 309 distinct class names, each covering one contiguous ordinal range
    {
        let mut ranges: BTreeMap<&str, (usize, usize, usize)> = BTreeMap::new();
        for o in 1..names.len() {
            let e = ranges.entry(names[o].1.as_str()).or_insert((o, o, 0));
            e.0 = e.0.min(o);
            e.1 = e.1.max(o);
            e.2 += 1;
        }
        let contiguous = ranges.values().all(|&(lo, hi, n)| hi - lo + 1 == n);
        rep.self_check("model names: 309 classes, each a contiguous ordinal range", ranges.len() == 309 && contiguous);
    }
    let seed = ctx.seed;

    // ---- all 65,536 values ---------------------------------------------------
    let values: Vec<u16> = if ctx.smoke() { (0..=65535u32).step_by(97).map(|v| v as u16).collect() } else { (0..=65535u32).map(|v| v as u16).collect() };
    let chunks: Vec<&[u16]> = values.chunks(4096).collect();
    let sv = par_run(ctx, chunks.len(), mk, |st, ci| {
        for &v in chunks[ci] {
            check_value(st, &names, v);
            st.rep.distinct += 1;
        }
    });
    let (rv, _) = merge_states(sv);
    rep.merge(rv);
    // ---- conversion right after converting another value ------------------------------------------
    // A conversion must not depend on what was converted before. Predecessors: the same value, values that
    // agree with it in their low bits or differ by a power of two (what a truncated cache key would confuse),
    // and (thorough) every other value: all 2^32 ordered (previous, current) pairs.
    {
        // expected enums per value, taken from a neutral-context conversion that the pass above compared with the model
        let neutral: Vec<HandRank> = (0..=65535u32).map(|v| HandRank::from(v as u16)).collect();
        let all_pairs = ctx.thorough();
        let vchunks: Vec<&[u16]> = values.chunks(256).collect();
        let sh = par_run(ctx, vchunks.len(), mk, |st, ci| {
            for &a in vchunks[ci] {
                let want = neutral[a as usize];
                let probe = |st: &mut St<X>, b: u16| {
                    let _ = HandRank::from(b);
                    let got = HandRank::from(a);
                    st.rep.evaluations += 2;
                    if got != want {
                        st.rep.violation(
                            "converting a value gives the same rank whatever was converted before",
                            "HandRank::from after HandRank::from",
                            Input::U16s(vec![b, a]),
                            format!("{:?}", want),
                            format!("{:?} right after converting {}", got, b),
                        );
                    }
                };
                if all_pairs {
                    for b in 0..=65535u16 {
                        probe(st, b);
                    }
                    st.rep.add("conversion_histories(prev, cur)", 65536);
                } else {
                    probe(st, a);
                    for j in 0..16u32 {
                        probe(st, a ^ (1 << j));
                        probe(st, a.wrapping_add(1 << j));
                        probe(st, a.wrapping_sub(1 << j));
                        probe(st, a & ((1u32 << j) as u16).wrapping_sub(1)); // low j bits only
                        probe(st, a | !(((1u32 << j) as u16).wrapping_sub(1))); // high bits all set
                    }
                    probe(st, a.swap_bytes());
                    probe(st, !a);
                    st.rep.add("conversion_histories(prev, cur)", 83);
                }
            }
        });
        let (rh, _) = merge_states(sh);
        rep.merge(rh);
    }
    // default
    {
        rep.evaluations += 1;
        if HandRank::default() != HandRank::from(0) {
            rep.violation("HandRank::default() == HandRank::from(0)", "HandRank::default", Input::None, format!("{:?}", HandRank::from(0)), format!("{:?}", HandRank::default()));
        }
    }
    // the crate's classes over 1..=7462: 309, each a non-empty contiguous value range
    {
        let mut ranges: BTreeMap<String, (u32, u32, u32)> = BTreeMap::new();
        for v in 1..=7462u32 {
            let c = format!("{:?}", HandRank::from(v as u16).class);
            let e = ranges.entry(c).or_insert((v, v, 0));
            e.0 = e.0.min(v);
            e.1 = e.1.max(v);
            e.2 += 1;
        }
        rep.add("distinct_classes_over_values_1..=7462", ranges.len() as u64);
        let mut lens: Vec<u32> = ranges.values().map(|r| r.2).collect();
        lens.sort_unstable();
        rep.note("class_range_lengths(min,median,max)", format!("{},{},{}", lens[0], lens[lens.len() / 2], lens[lens.len() - 1]));
        for (c, &(lo, hi, n)) in &ranges {
            if hi - lo + 1 != n {
                rep.violation(
                    "every class is the class of one contiguous value range",
                    "HandRank::from(v).class",
                    Input::None,
                    format!("{} covers a contiguous range", c),
                    format!("{} appears on {} values spread over {}..={}", c, n, lo, hi),
                );
            }
        }
        // ... and the enumeration has no other member: the positions (discriminants) of the classes reached
        // from values are exactly 0 .. position of Invalid, which is the last member - so a class that is the
        // class of no value (an extra or orphaned variant) leaves a hole. Same for the ten categories.
        {
            let seen_c: std::collections::BTreeSet<usize> = (1..=7462u16).map(|v| HandRank::from(v).class as usize).collect();
            let seen_n: std::collections::BTreeSet<usize> = (1..=7462u16).map(|v| HandRank::from(v).name as usize).collect();
            let (inv_c, inv_n) = (HandRank::from(0).class as usize, HandRank::from(0).name as usize);
            let holes_c: Vec<usize> = (0..inv_c).filter(|d| !seen_c.contains(d)).collect();
            let holes_n: Vec<usize> = (0..inv_n).filter(|d| !seen_n.contains(d)).collect();
            rep.evaluations += 2;
            rep.add("class_enumeration_positions_before_Invalid", inv_c as u64);
            if !holes_c.is_empty() || seen_c.iter().any(|&d| d >= inv_c) {
                rep.violation(
                    "each non-Invalid class of the enumeration is the class of some value (no member without a value range)",
                    "HandRankClass",
                    Input::None,
                    format!("positions 0..{} all reached from values 1..=7462", inv_c),
                    format!("{} reached; positions never reached: {:?}", seen_c.len(), holes_c),
                );
            }
            if !holes_n.is_empty() || seen_n.iter().any(|&d| d >= inv_n) {
                rep.violation(
                    "each non-Invalid category of the enumeration is the category of some value",
                    "HandRankName",
                    Input::None,
                    format!("positions 0..{} all reached from values 1..=7462", inv_n),
                    format!("{} reached; positions never reached: {:?}", seen_n.len(), holes_n),
                );
            }
        }
        let non_invalid = ranges.keys().filter(|k| k.as_str() != "Invalid").count();
        if non_invalid != 309 && rep.violations == 0 {
            rep.violation(
                "each of the 309 non-Invalid classes is the class of some value",
                "HandRank::from(v).class",
                Input::None,
                "309 classes".into(),
                format!("{} classes", non_invalid),
            );
        }
    }

    let all_orders5 = !ctx.smoke() && (ctx.thorough() || ctx.leg != "checked");
    let perms5: Vec<[u8; 8]> = (0..drive::factorial(5)).map(|k| drive::nth_permutation(5, k)).collect();
    // ---- cards -> rank: all five-card hands -------------------------------------
    let us = if ctx.smoke() { 331 } else { 1 };
    let s5 = par_subsets::<5, X, _, _>(ctx, us, mk, |st, c, _| {
        st.rep.distinct += 1;
        st.x.hands[5] += 1;
        let key = model::key5(c);
        let o = m.ord_of_key(key);
        let mut rng = Rng::new(seed, drive::hand_code(c) ^ 0x0606);
        let p = permuted(c, &mut rng);
        let w = words_of(&p);
        st.flight("Five::hand_rank", &w);
        let h = Five::from(w);
        check_rank_of_cards(st, "Five::hand_rank", &p, h.hand_rank(), key, o);
        check_rank_of_cards(st, "Five::hand_rank_validated", &p, h.hand_rank_validated(), key, o);
        // every slot order (the rank reported for a hand must describe its cards in whatever order they are held)
        if all_orders5 {
            for q in &perms5 {
                let a = [c[q[0] as usize], c[q[1] as usize], c[q[2] as usize], c[q[3] as usize], c[q[4] as usize]];
                let h = Five::from(words_of(&a));
                check_rank_of_cards(st, "Five::hand_rank", &a, h.hand_rank(), key, o);
                check_rank_of_cards(st, "Five::hand_rank_validated", &a, h.hand_rank_validated(), key, o);
            }
        }
        if st.rep.want_sample() && selected(c, seed, 0x6a, 400_009) {
            st.rep.sample(format!("{} -> {:?} ; oracle {} / {}", model::hand_name(&p), h.hand_rank(), Model::category_name_of_key(key), Model::class_name_of_key(key)));
        }
    });
    let (r5, x5) = merge_states(s5);
    let n5 = r5.distinct;
    rep.merge(r5);

    // ---- six / seven cards: class of the best hand -----------------------------
    let rate6 = ctx.pick(1, 4, 1);
    let rate7 = ctx.pick(1, 32, 4);
    let perms6: Vec<[u8; 8]> = (0..drive::factorial(6)).map(|k| drive::nth_permutation(6, k)).collect();
    let s6 = par_subsets::<6, X, _, _>(ctx, us, mk, |st, c, _| {
        // directed family (round 13): hands that can hold a straight flush. Single-suit hands go through
        // hand_rank() in all 720 slot orders; other hands with five or more of a suit whose best hand is a
        // straight flush or quads-or-better get every card moved to the last slot plus 32 seeded orders.
        // A rank computed from a leading five that "cannot be beaten" is caught here whatever the seed.
        if !ctx.smoke() && drive::max_suit_count(c) >= 5 {
            let key = model::key_best(model::suit_masks(c));
            let o = m.ord_of_key(key);
            if drive::max_suit_count(c) == 6 {
                for q in &perms6 {
                    let a = [c[q[0] as usize], c[q[1] as usize], c[q[2] as usize], c[q[3] as usize], c[q[4] as usize], c[q[5] as usize]];
                    {
                        let h = Six::from(words_of(&a));
                        check_rank_of_cards(st, "Six::hand_rank", &a, h.hand_rank(), key, o);
                        check_rank_of_cards(st, "Six::hand_rank_validated", &a, h.hand_rank_validated(), key, o);
                    }
                }
                st.rep.add("single_suit_six_card_hands_in_every_slot_order", 1);
            } else if o <= 10 {
                let mut rng = Rng::new(seed, drive::hand_code(c) ^ 0x0617);
                for k in 0..38 {
                    let mut a = *c;
                    if k < 6 {
                        a.swap(k, 5);
                    } else {
                        a = permuted(c, &mut rng);
                    }
                    {
                        let h = Six::from(words_of(&a));
                        check_rank_of_cards(st, "Six::hand_rank", &a, h.hand_rank(), key, o);
                        check_rank_of_cards(st, "Six::hand_rank_validated", &a, h.hand_rank_validated(), key, o);
                    }
                }
                st.rep.add("straight_flush_six_card_hands_in_directed_orders", 1);
            }
        }
        if !selected(c, seed, 0x6b, rate6) {
            return;
        }
        st.rep.distinct += 1;
        st.x.hands[6] += 1;
        let key = model::key_best(model::suit_masks(c));
        let o = m.ord_of_key(key);
        let mut rng = Rng::new(seed, drive::hand_code(c) ^ 0x0607);
        let p = permuted(c, &mut rng);
        let w = words_of(&p);
        st.flight("Six::hand_rank", &w);
        let h = Six::from(w);
        check_rank_of_cards(st, "Six::hand_rank", &p, h.hand_rank(), key, o);
        check_rank_of_cards(st, "Six::hand_rank_validated", &p, h.hand_rank_validated(), key, o);
    });
    let (r6, x6) = merge_states(s6);
    let n6 = r6.distinct;
    rep.merge(r6);
    let s7 = par_subsets::<7, X, _, _>(ctx, us, mk, |st, c, _| {
        // directed family (round 13), seven cards: every hand whose best hand is a straight flush, and every
        // single-suit hand, with each ordered pair of its cards placed in the last two slots (42 orders) plus
        // 22 seeded orders.
        if !ctx.smoke() && drive::max_suit_count(c) >= 5 {
            let key = model::key_best(model::suit_masks(c));
            let o = m.ord_of_key(key);
            if o <= 10 || drive::max_suit_count(c) == 7 {
                let mut rng = Rng::new(seed, drive::hand_code(c) ^ 0x0618);
                for i in 0..7 {
                    for j in 0..7 {
                        if i == j {
                            continue;
                        }
                        let mut a = [0u8; 7];
                        let mut n = 0;
                        for k in 0..7 {
                            if k != i && k != j {
                                a[n] = c[k];
                                n += 1;
                            }
                        }
                        a[5] = c[i];
                        a[6] = c[j];
                        {
                        let h = Seven::from(words_of(&a));
                        check_rank_of_cards(st, "Seven::hand_rank", &a, h.hand_rank(), key, o);
                        check_rank_of_cards(st, "Seven::hand_rank_validated", &a, h.hand_rank_validated(), key, o);
                    }
                    }
                }
                for _ in 0..22 {
                    let a = permuted(c, &mut rng);
                    {
                        let h = Seven::from(words_of(&a));
                        check_rank_of_cards(st, "Seven::hand_rank", &a, h.hand_rank(), key, o);
                        check_rank_of_cards(st, "Seven::hand_rank_validated", &a, h.hand_rank_validated(), key, o);
                    }
                }
                st.rep.add("straight_flush_or_single_suit_seven_card_hands_in_directed_orders", 1);
            }
        }
        if !selected(c, seed, 0x6c, rate7) {
            return;
        }
        st.rep.distinct += 1;
        st.x.hands[7] += 1;
        let key = model::key_best(model::suit_masks(c));
        let o = m.ord_of_key(key);
        let mut rng = Rng::new(seed, drive::hand_code(c) ^ 0x0608);
        let p = permuted(c, &mut rng);
        let w = words_of(&p);
        st.flight("Seven::hand_rank", &w);
        let h = Seven::from(w);
        check_rank_of_cards(st, "Seven::hand_rank", &p, h.hand_rank(), key, o);
        check_rank_of_cards(st, "Seven::hand_rank_validated", &p, h.hand_rank_validated(), key, o);
    });
    let (r7, x7) = merge_states(s7);
    let n7 = r7.distinct;
    rep.merge(r7);

    let mut classes: HashSet<usize> = HashSet::new();
    for x in x5.into_iter().chain(x6).chain(x7) {
        classes.extend(x.classes_from_cards);
    }
    rep.add("values_converted", values.len() as u64);
    rep.add("distinct_classes_reached_from_cards", classes.len() as u64);
    rep.add("five_card_hands", n5);
    rep.add("six_card_hands", n6);
    rep.add("seven_card_hands", n7);
    if !ctx.smoke() {
        rep.floor("values converted", values.len() as u64, 65536);
        rep.floor("five-card hands", n5, 2_598_960);
        rep.floor("classes reached from cards", classes.len() as u64, 309);
        rep.floor("six-card hands", n6, 1_000_000);
        rep.floor("seven-card hands", n7, 1_000_000);
        let (d6a, d6b, d7) = (
            rep.get("single_suit_six_card_hands_in_every_slot_order"),
            rep.get("straight_flush_six_card_hands_in_directed_orders"),
            rep.get("straight_flush_or_single_suit_seven_card_hands_in_directed_orders"),
        );
        rep.floor("single-suit six-card hands in every slot order", d6a, 6_864);
        rep.floor("other straight-flush six-card hands in directed orders", d6b, 1_560);
        rep.floor("straight-flush or single-suit seven-card hands in directed orders", d7, 47_580);
        rep.exhaustive = Some(true);
    }
    rep.rule = format!(
        "all 65,536 values through HandRank::from and its helpers (distinct = values), each also converted right after 83 related predecessors (thorough: after every value); all 2,598,960 five-card hands in a seeded slot order (and in all 120 slot orders in the fast leg / thorough), \
         a seeded 1-in-{} of the six-card and 1-in-{} of the seven-card hands through hand_rank()/hand_rank_validated(), names compared with the \
         rules-derived category/class of the cards; plus (not smoke) every single-suit six-card hand in all 720 slot orders, every other straight-flush six-card hand with each card \
         moved to the last slot and 32 seeded orders, and every straight-flush or single-suit seven-card hand with each ordered pair of cards in the last two slots and 22 seeded orders",
        rate6, rate7
    );
    rep
}

pub fn replay(_ctx: &Ctx, inp: &Input, _clause: &str) -> Rep {
    let mut rep = Rep::new();
    let m = Model::build();
    let names = m.names_by_ordinal();
    let mut st = St { rep: Rep::new(), x: mk(), cur: [0; 8], cur_len: 0, cur_what: "" };
    let ok = |v: &Vec<u8>| {
        let mut s = v.clone();
        s.sort_unstable();
        v.iter().all(|&i| i < 52) && !s.windows(2).any(|w| w[0] == w[1])
    };
    let r = drive::guard(|| match inp {
        Input::U16s(v) if !v.is_empty() => {
            // values are converted in the recorded order, each checked against the model
            for &x in v {
                check_value(&mut st, &names, x);
            }
            if v.len() == 2 {
                let _ = HandRank::from(v[0]);
                let got = HandRank::from(v[1]);
                let e = &names[if (1..=7462).contains(&v[1]) { v[1] as usize } else { 0 }];
                if got.value != v[1] || format!("{:?}", got.name) != e.0 || format!("{:?}", got.class) != e.1 {
                    st.rep.violation("converting a value gives the same rank whatever was converted before", "HandRank::from after HandRank::from", inp.clone(), format!("{} / {}", e.0, e.1), format!("{:?}", got));
                }
            }
        }
        Input::Idx(v) if (5..=7).contains(&v.len()) && ok(v) => {
            let key = model::key_best(model::suit_masks(v));
            let o = m.ord_of_key(key);
            let w: Vec<u32> = v.iter().map(|&i| model::word(i)).collect();
            let (a, b) = match v.len() {
                5 => {
                    let h = Five::from([w[0], w[1], w[2], w[3], w[4]]);
                    (h.hand_rank(), h.hand_rank_validated())
                }
                6 => {
                    let h = Six::from([w[0], w[1], w[2], w[3], w[4], w[5]]);
                    (h.hand_rank(), h.hand_rank_validated())
                }
                _ => {
                    let h = Seven::from([w[0], w[1], w[2], w[3], w[4], w[5], w[6]]);
                    (h.hand_rank(), h.hand_rank_validated())
                }
            };
            check_rank_of_cards(&mut st, "hand_rank", v, a, key, o);
            check_rank_of_cards(&mut st, "hand_rank_validated", v, b, key, o);
        }
        Input::None => {
            if HandRank::default() != HandRank::from(0) {
                st.rep.violation("HandRank::default() == HandRank::from(0)", "HandRank::default", Input::None, "".into(), "".into());
            }
        }
        _ => bad_replay(&mut st.rep, "C06 wants u16s: values, or idx: 5..7 distinct deck indices"),
    });
    if let Err(msg) = r {
        st.rep.violation("panic", "HandRank", inp.clone(), "normal return".into(), msg);
    }
    st.rep.distinct = 1;
    rep.merge(st.rep);
    rep
}
