//! C01 — five-card rank value is the hand's exact poker strength ordinal.
//!
//! Refuted by: a five-card set, a slot order and an entry point whose result
//! differs from the oracle ordinal, or a value in 1..=7462 never produced.

use crate::common::{Ctx, Input, Rep};
use crate::drive::{self, factorial, nth_permutation, par_run, Rng, St};
#[allow(unused_imports)]
use crate::common::Tier;
use crate::model::{self, Model};
use crate::props::{bad_replay, words_of};
use ckc_rs::cards::five::Five;
use ckc_rs::cards::HandRanker;
use ckc_rs::evaluate;

const ENTRIES: [&str; 6] = [
    "Five::hand_rank_value",
    "Five::hand_rank_value_and_hand.0",
    "Five::hand_rank().value",
    "Five::hand_rank_value_validated",
    "Five::hand_rank_validated().value",
    "evaluate::five_cards",
];

pub struct X {
    values_seen: Vec<u64>,     // bitmap over 0..=7462 (+ slack)
    flush_cells: Vec<u64>,     // bitmap over or_rank_bits index on the flush path
    unique_cells: Vec<u64>,    // ... on the five-distinct-ranks path
    product_cells: Vec<u64>,   // bitmap over find_in_products index on the product path
    cat: [u64; 9],
    orders: u64,
}

fn mk() -> X {
    X {
        values_seen: vec![0; 65536 / 64],
        flush_cells: vec![0; 8192 / 64],
        unique_cells: vec![0; 8192 / 64],
        product_cells: vec![0; 8192 / 64],
        cat: [0; 9],
        orders: 0,
    }
}

#[inline]
fn setbit(v: &mut [u64], i: usize) {
    if i / 64 < v.len() {
        v[i / 64] |= 1 << (i % 64);
    }
}

fn popcount(v: &[u64]) -> u64 {
    v.iter().map(|w| w.count_ones() as u64).sum()
}

/// One (subset, slot order): all six entry points against the oracle ordinal.
#[inline]
fn check_order(st: &mut St<X>, c: &[u8; 5], expect: u16) {
    let w = words_of(c);
    st.flight("Five ranking", &w);
    let five = Five::from(w);
    let got: [u16; 6] = [
        five.hand_rank_value(),
        five.hand_rank_value_and_hand().0,
        five.hand_rank().value,
        five.hand_rank_value_validated(),
        five.hand_rank_validated().value,
        evaluate::five_cards(w),
    ];
    st.rep.evaluations += 6;
    st.x.orders += 1;
    setbit(&mut st.x.values_seen, got[0] as usize);
    for k in 0..6 {
        if got[k] != expect {
            st.rep.violation(
                "value == strength ordinal",
                ENTRIES[k],
                Input::Idx(c.to_vec()),
                format!("{} ({})", expect, describe(expect_key(c))),
                format!("{}", got[k]),
            );
        }
    }
}

fn expect_key(c: &[u8; 5]) -> u32 {
    model::key5(c)
}

fn describe(k: u32) -> String {
    format!("{} / {}", Model::category_name_of_key(k), Model::class_name_of_key(k))
}

/// Which table path the crate's own public helpers say this hand takes (observation only).
#[inline]
fn observe_path(st: &mut St<X>, c: &[u8; 5]) {
    let five = Five::from(words_of(c));
    let i = five.or_rank_bits() as usize;
    if five.is_flush() {
        setbit(&mut st.x.flush_cells, i);
    } else if (i as u32).count_ones() == 5 {
        setbit(&mut st.x.unique_cells, i);
    } else {
        let p = Five::find_in_products(five.multiply_primes());
        setbit(&mut st.x.product_cells, p);
    }
}

pub fn run(ctx: &Ctx) -> Rep {
    let m = Model::build();
    let mut rep = Rep::new();
    if let Err(e) = m.self_check() {
        rep.self_check(&e, false);
        return rep;
    }
    rep.self_check("model: 7462 classes, category populations, endpoints", true);

    // all 120 slot orders of every hand: thorough, and the fast leg of quick (~9 s); the checked leg of quick samples
    let all_orders = ctx.thorough() || (ctx.leg != "checked" && !ctx.smoke());
    let perms: Vec<[u8; 8]> = (0..factorial(5)).map(|k| nth_permutation(5, k)).collect();
    let units = drive::pairs(52);
    let stride = if ctx.smoke() { 97 } else { 1 }; // smoke: a thin slice of the units
    let unit_ids: Vec<usize> = (0..units.len()).filter(|u| u % stride == 0).collect();
    let seed = ctx.seed;

    let states = par_run(ctx, unit_ids.len(), mk, |st, ui| {
        let u = unit_ids[ui];
        let (a, b) = units[u];
        let mut rng = Rng::new(seed, 0xC01_0000 + u as u64);
        for c3 in (b + 1)..52 {
            for d in (c3 + 1)..52 {
                for e in (d + 1)..52 {
                    let base = [a, b, c3, d, e];
                    let expect = m.ord5(&base);
                    st.rep.distinct += 1;
                    st.x.cat[model::key_cat(model::key5(&base)) as usize] += 1;
                    observe_path(st, &base);
                    // all 120 slot orders in the thorough tier; in quick for every hand of the five rarest
                    // categories (straight flush, quads, full house, flush, straight: 19,716 hands) and a seeded 1-in-64 of the rest
                    let rare = model::key_cat(model::key5(&base)) >= model::CAT_STRAIGHT;
                    if all_orders || rare || drive::selected(&base, seed, 0x0164, 64) {
                        for p in &perms {
                            let c = [base[p[0] as usize], base[p[1] as usize], base[p[2] as usize], base[p[3] as usize], base[p[4] as usize]];
                            check_order(st, &c, expect);
                        }
                    } else {
                        check_order(st, &base, expect);
                        let r = [e, d, c3, b, a];
                        check_order(st, &r, expect);
                        for _ in 0..4 {
                            let p = &perms[rng.below(120) as usize];
                            let c = [base[p[0] as usize], base[p[1] as usize], base[p[2] as usize], base[p[3] as usize], base[p[4] as usize]];
                            check_order(st, &c, expect);
                        }
                    }
                    if st.rep.want_sample() && st.rep.distinct % 40_009 == 1 {
                        let w = words_of(&base);
                        st.rep.sample(format!(
                            "{} -> crate {} / oracle {} ({})",
                            model::hand_name(&base),
                            Five::from(w).hand_rank_value(),
                            expect,
                            describe(model::key5(&base))
                        ));
                    }
                }
            }
        }
    });

    let (mut r, xs) = drive::merge_states(states);
    rep.merge(r_take(&mut r));

    // ---- call histories within a rank multiset ------------------------------------------------------
    // A hand ranked right after another hand of the same ranks (a different suit assignment) must still
    // get its own value: these are the pairs a lossy cache key (prime product, sum or xor of the words,
    // suit counts) would confuse. All ordered pairs within every rank multiset in the thorough tier
    // (1.79 G pairs); in quick, all ordered pairs among up to 96 seeded suit assignments per multiset,
    // always including the flushes.
    let mut multisets: Vec<[u8; 5]> = Vec::new();
    for a in 0..13u8 {
        for b in a..13 {
            for c3 in b..13 {
                for d in c3..13 {
                    for e in d..13 {
                        if !(a == e) {
                            multisets.push([a, b, c3, d, e]);
                        }
                    }
                }
            }
        }
    }
    let cap = ctx.pick(8, 96, 100_000) as usize;
    let ms: Vec<&[u8; 5]> = multisets.iter().filter(|_| true).collect();
    let ms_ids: Vec<usize> = (0..ms.len()).filter(|i| !ctx.smoke() || i % 97 == 0).collect();
    let hs = par_run(ctx, ms_ids.len(), mk, |st, ui| {
        let ranks = ms[ms_ids[ui]];
        // all hands (sets of distinct cards) with these ranks: suit assignments, de-duplicated as sets
        let mut hands: Vec<[u8; 5]> = Vec::new();
        for code in 0..1024u32 {
            let mut h = [0u8; 5];
            for k in 0..5 {
                h[k] = model::idx(ranks[k], ((code >> (2 * k)) & 3) as u8);
            }
            let mut s = h;
            s.sort_unstable();
            if s.windows(2).any(|w| w[0] == w[1]) {
                continue;
            }
            // equal ranks: keep one representative per set (suits ascending within equal ranks)
            let mut canonical = true;
            for k in 1..5 {
                if ranks[k] == ranks[k - 1] && h[k] < h[k - 1] {
                    canonical = false;
                }
            }
            if canonical {
                hands.push(h);
            }
        }
        if hands.len() > cap {
            let mut rng = Rng::new(seed, 0xC01_7000 + ms_ids[ui] as u64);
            let (mut flush, mut other): (Vec<[u8; 5]>, Vec<[u8; 5]>) = hands.into_iter().partition(|h| h.iter().all(|&c| model::suit_of(c) == model::suit_of(h[0])));
            rng.shuffle(&mut other);
            other.truncate(cap - flush.len().min(cap));
            flush.extend(other);
            hands = flush;
        }
        let words: Vec<[u32; 5]> = hands.iter().map(words_of).collect();
        let expect: Vec<u16> = hands.iter().map(|h| m.ord5(h)).collect();
        let mut k = 0usize;
        for pi in 0..hands.len() {
            for ci in 0..hands.len() {
                if pi == ci {
                    continue;
                }
                k += 1;
                st.flight("Five ranking after a same-ranks hand", &words[ci]);
                let (p, c) = (Five::from(words[pi]), Five::from(words[ci]));
                // rotate through the entry points; the plain one always
                let got0 = {
                    let _ = p.hand_rank_value();
                    c.hand_rank_value()
                };
                let (got1, e1) = match k % 5 {
                    0 => ({ let _ = p.hand_rank_value_and_hand(); c.hand_rank_value_and_hand().0 }, 1),
                    1 => ({ let _ = p.hand_rank(); c.hand_rank().value }, 2),
                    2 => ({ let _ = p.hand_rank_value_validated(); c.hand_rank_value_validated() }, 3),
                    3 => ({ let _ = p.hand_rank_validated(); c.hand_rank_validated().value }, 4),
                    _ => ({ let _ = evaluate::five_cards(words[pi]); evaluate::five_cards(words[ci]) }, 5),
                };
                st.rep.evaluations += 4;
                for (got, e) in [(got0, 0usize), (got1, e1)] {
                    if got != expect[ci] {
                        let mut both = hands[pi].to_vec();
                        both.extend_from_slice(&hands[ci]);
                        st.rep.violation(
                            "the value does not depend on which hand was ranked before",
                            &format!("{} after ranking a hand of the same ranks", ENTRIES[e]),
                            Input::Idx(both),
                            format!("{} ({})", expect[ci], describe(model::key5(&hands[ci]))),
                            format!("{} right after ranking {}", got, model::hand_name(&hands[pi])),
                        );
                    }
                }
            }
        }
        st.rep.add("same_rank_multiset_call_histories(prev, cur)", k as u64);
    });
    let (mut hr, _) = drive::merge_states(hs);
    hr.distinct = 0;
    rep.merge(hr);
    rep.add("rank_multisets", ms_ids.len() as u64);
    let mut acc = mk();
    for x in xs {
        for (a, b) in acc.values_seen.iter_mut().zip(&x.values_seen) {
            *a |= b;
        }
        for (a, b) in acc.flush_cells.iter_mut().zip(&x.flush_cells) {
            *a |= b;
        }
        for (a, b) in acc.unique_cells.iter_mut().zip(&x.unique_cells) {
            *a |= b;
        }
        for (a, b) in acc.product_cells.iter_mut().zip(&x.product_cells) {
            *a |= b;
        }
        for k in 0..9 {
            acc.cat[k] += x.cat[k];
        }
        acc.orders += x.orders;
    }
    // values 1..=7462 produced
    let mut produced = 0u64;
    let mut missing: Vec<u16> = Vec::new();
    for v in 1..=7462usize {
        if acc.values_seen[v / 64] >> (v % 64) & 1 == 1 {
            produced += 1;
        } else if missing.len() < 8 {
            missing.push(v as u16);
        }
    }
    let out_of_range = popcount(&acc.values_seen) - produced;
    rep.add("values_in_1..=7462_produced", produced);
    rep.add("values_outside_1..=7462_produced", out_of_range);
    rep.add("slot_orders_checked", acc.orders);
    rep.add("flush_table_cells_touched", popcount(&acc.flush_cells));
    rep.add("unique5_table_cells_touched", popcount(&acc.unique_cells));
    rep.add("product_table_cells_touched", popcount(&acc.product_cells));
    const CATS: [&str; 9] = ["HighCard", "Pair", "TwoPair", "ThreeOfAKind", "Straight", "Flush", "FullHouse", "FourOfAKind", "StraightFlush"];
    for k in 0..9 {
        rep.add(&format!("hands.{}", CATS[k]), acc.cat[k]);
    }
    if !ctx.smoke() {
        // "every value 1..=7462 is produced by some hand" is itself a clause of the property
        if produced != 7462 && rep.violations == 0 {
            rep.violation(
                "every value 1..=7462 is produced",
                "Five::hand_rank_value",
                Input::U16s(missing.clone()),
                "7462 distinct values over all hands".to_string(),
                format!("{} produced; first missing {:?}", produced, missing),
            );
        }
        rep.floor("five_card_subsets", rep.distinct, 2_598_960);
        rep.exhaustive = Some(true);
    }
    rep.rule = format!(
        "every 5-subset of the 52 model cards (enumerated once each = distinct), each in {} through 6 entry points; \
         plus two-call histories (a hand ranked right after another hand of the same ranks) for all ordered pairs within each of the 6175 rank multisets (quick: among up to 96 suit assignments per multiset, flushes always included); oracle = ordinal of the rule-based strength key among the 7462 classes; all subsets are non-trivial",
        if all_orders { "all 120 slot orders" } else { "canonical, reversed and 4 seeded slot orders (all 120 for every straight or better and a seeded 1-in-64 of the other hands)" }
    );
    rep
}

fn r_take(r: &mut Rep) -> Rep {
    std::mem::take(r)
}

pub fn replay(_ctx: &Ctx, inp: &Input, _clause: &str) -> Rep {
    let mut rep = Rep::new();
    let m = Model::build();
    match inp {
        Input::Idx(v) if v.len() == 10 && v.iter().all(|&i| i < 52) => {
            // a two-call history: previous hand, current hand; every entry point
            let p = words_of(&[v[0], v[1], v[2], v[3], v[4]]);
            let cidx = [v[5], v[6], v[7], v[8], v[9]];
            let c = words_of(&cidx);
            let expect = m.ord5(&cidx);
            let r = drive::guard(|| {
                let (pf, cf) = (Five::from(p), Five::from(c));
                [
                    { let _ = pf.hand_rank_value(); cf.hand_rank_value() },
                    { let _ = pf.hand_rank_value_and_hand(); cf.hand_rank_value_and_hand().0 },
                    { let _ = pf.hand_rank(); cf.hand_rank().value },
                    { let _ = pf.hand_rank_value_validated(); cf.hand_rank_value_validated() },
                    { let _ = pf.hand_rank_validated(); cf.hand_rank_validated().value },
                    { let _ = evaluate::five_cards(p); evaluate::five_cards(c) },
                ]
            });
            match r {
                Ok(got) => {
                    for k in 0..6 {
                        if got[k] != expect {
                            rep.violation("the value does not depend on which hand was ranked before", ENTRIES[k], inp.clone(), format!("{}", expect), format!("{}", got[k]));
                        }
                    }
                }
                Err(msg) => rep.violation("panic", "Five ranking", inp.clone(), "normal return".into(), msg),
            }
            rep.distinct = 1;
        }
        Input::Idx(v) if v.len() == 5 && v.iter().all(|&i| i < 52) => {
            let c = [v[0], v[1], v[2], v[3], v[4]];
            let mut sorted = c;
            sorted.sort_unstable();
            if sorted.windows(2).any(|w| w[0] == w[1]) {
                bad_replay(&mut rep, "cards not distinct");
                return rep;
            }
            let mut st = St { rep: Rep::new(), x: mk(), cur: [0; 8], cur_len: 0, cur_what: "" };
            let expect = m.ord5(&c);
            match drive::guard(|| check_order(&mut st, &c, expect)) {
                Ok(()) => {}
                Err(msg) => st.rep.violation("panic", "Five ranking", inp.clone(), "normal return".into(), msg),
            }
            st.rep.distinct = 1;
            rep.merge(st.rep);
        }
        _ => bad_replay(&mut rep, "C01 wants idx: five distinct deck indices"),
    }
    rep
}
