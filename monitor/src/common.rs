//! Shared monitor plumbing: run context, witnesses, per-thread reports, JSON out.
//!
//! Nothing in here knows anything about poker; see `model.rs` for the oracle.

use std::collections::BTreeMap;
use std::fmt::Write as _;

#[derive(Clone, Copy, PartialEq, Eq, Debug)]
pub enum Tier {
    Quick,
    Thorough,
    /// tiny workload used by the Miri smoke leg (same code paths, few cases)
    Smoke,
}

pub struct Ctx {
    pub tier: Tier,
    pub seed: u64,
    pub leg: String,
    pub threads: usize,
    /// set by ./check when the built crate owns writable static data (hidden state): the call-history
    /// probes then run at their thorough size whatever the tier
    pub escalate: bool,
    /// runtime addresses of the crate's writable statics, when ./check found any (observation hook)
    pub statics: Option<crate::statewatch::Watch>,
}

impl Ctx {
    pub fn thorough(&self) -> bool {
        self.tier == Tier::Thorough
    }
    pub fn smoke(&self) -> bool {
        self.tier == Tier::Smoke
    }
    /// size of a call-history workload: thorough size when escalated
    pub fn pick_hist(&self, smoke: u64, quick: u64, thorough: u64) -> u64 {
        if self.escalate && self.tier != Tier::Smoke {
            thorough
        } else {
            self.pick(smoke, quick, thorough)
        }
    }
    /// pick a workload size by tier
    pub fn pick(&self, smoke: u64, quick: u64, thorough: u64) -> u64 {
        match self.tier {
            Tier::Smoke => smoke,
            Tier::Quick => quick,
            Tier::Thorough => thorough,
        }
    }
}

/// The input of one monitored case, in a form that can be written to a replay
/// file and parsed back from the command line.
#[derive(Clone, Debug, PartialEq)]
pub enum Input {
    /// deck indices 0..52 in slot order, 52 = blank
    Idx(Vec<u8>),
    /// raw 32-bit words in slot order
    Words(Vec<u32>),
    /// a string (stored as code points in the replay file)
    Text(String),
    U64s(Vec<u64>),
    U16s(Vec<u16>),
    /// an operation history, one token per op
    Ops(Vec<String>),
    None,
}

impl Input {
    pub fn kind(&self) -> &'static str {
        match self {
            Input::Idx(_) => "idx",
            Input::Words(_) => "words",
            Input::Text(_) => "text",
            Input::U64s(_) => "u64s",
            Input::U16s(_) => "u16s",
            Input::Ops(_) => "ops",
            Input::None => "none",
        }
    }
    pub fn data(&self) -> String {
        fn join<T: ToString>(v: &[T]) -> String {
            v.iter().map(|x| x.to_string()).collect::<Vec<_>>().join(",")
        }
        match self {
            Input::Idx(v) => join(v),
            Input::Words(v) => v.iter().map(|w| format!("0x{:08X}", w)).collect::<Vec<_>>().join(","),
            Input::Text(s) => s.chars().map(|c| format!("{:X}", c as u32)).collect::<Vec<_>>().join(","),
            Input::U64s(v) => v.iter().map(|w| format!("0x{:016X}", w)).collect::<Vec<_>>().join(","),
            Input::U16s(v) => join(v),
            Input::Ops(v) => v.join(";"),
            Input::None => String::new(),
        }
    }
    pub fn parse(kind: &str, data: &str) -> Result<Input, String> {
        fn num(s: &str) -> Result<u64, String> {
            let s = s.trim();
            let r = if let Some(h) = s.strip_prefix("0x").or_else(|| s.strip_prefix("0X")) {
                u64::from_str_radix(h, 16)
            } else {
                s.parse::<u64>()
            };
            r.map_err(|e| format!("bad number {:?}: {}", s, e))
        }
        let items: Vec<&str> = if data.is_empty() { vec![] } else { data.split(',').collect() };
        Ok(match kind {
            "idx" => Input::Idx(items.iter().map(|s| num(s).map(|x| x as u8)).collect::<Result<_, _>>()?),
            "words" => Input::Words(items.iter().map(|s| num(s).map(|x| x as u32)).collect::<Result<_, _>>()?),
            "u64s" => Input::U64s(items.iter().map(|s| num(s)).collect::<Result<_, _>>()?),
            "u16s" => Input::U16s(items.iter().map(|s| num(s).map(|x| x as u16)).collect::<Result<_, _>>()?),
            "text" => {
                let mut out = String::new();
                for s in &items {
                    let cp = u32::from_str_radix(s.trim(), 16).map_err(|e| format!("bad code point {:?}: {}", s, e))?;
                    out.push(char::from_u32(cp).ok_or_else(|| format!("not a scalar value: {:X}", cp))?);
                }
                Input::Text(out)
            }
            "ops" => Input::Ops(if data.is_empty() { vec![] } else { data.split(';').map(|s| s.to_string()).collect() }),
            "none" => Input::None,
            k => return Err(format!("unknown input kind {:?}", k)),
        })
    }
    /// human-readable rendering used in samples and messages
    pub fn show(&self) -> String {
        match self {
            Input::Idx(v) => v.iter().map(|&i| crate::model::card_name(i)).collect::<Vec<_>>().join(" "),
            Input::Text(s) => format!("{:?}", s),
            other => other.data(),
        }
    }
}

#[derive(Clone, Debug)]
pub struct Witness {
    pub clause: String,
    pub entry: String,
    pub input: Input,
    pub expected: String,
    pub observed: String,
}

impl Witness {
    /// Exact signature used to de-duplicate witnesses and to key known findings.
    pub fn signature(&self) -> String {
        format!("{}|{}|{}:{}", self.clause, self.entry, self.input.kind(), self.input.data())
    }
}

pub const MAX_WITNESSES: usize = 16;
pub const MAX_SAMPLES: usize = 6;

/// Per-thread (mergeable) record of what a monitor observed.
#[derive(Default)]
pub struct Rep {
    /// monitored calls into the crate
    pub evaluations: u64,
    /// distinct inputs (by construction of the enumerator, or counted through a hash set)
    pub distinct: u64,
    pub violations: u64,
    pub witnesses: Vec<Witness>,
    pub counters: BTreeMap<String, u64>,
    pub samples: Vec<String>,
    /// reasons why the run is inconclusive (harness self-check failed, floor not reached ...)
    pub inconclusive: Vec<String>,
    /// notes copied into the evidence (strings)
    pub notes: BTreeMap<String, String>,
    pub exhaustive: Option<bool>,
    pub rule: String,
}

impl Rep {
    pub fn new() -> Rep {
        Rep::default()
    }
    pub fn add(&mut self, name: &str, n: u64) {
        if n != 0 || !self.counters.contains_key(name) {
            *self.counters.entry(name.to_string()).or_insert(0) += n;
        }
    }
    pub fn set_max(&mut self, name: &str, n: u64) {
        let e = self.counters.entry(name.to_string()).or_insert(0);
        if n > *e {
            *e = n;
        }
    }
    pub fn get(&self, name: &str) -> u64 {
        self.counters.get(name).copied().unwrap_or(0)
    }
    pub fn note(&mut self, name: &str, v: impl Into<String>) {
        self.notes.insert(name.to_string(), v.into());
    }
    pub fn want_sample(&self) -> bool {
        self.samples.len() < MAX_SAMPLES
    }
    pub fn sample(&mut self, s: String) {
        if self.samples.len() < MAX_SAMPLES {
            self.samples.push(s);
        }
    }
    #[cold]
    #[inline(never)]
    pub fn violation(&mut self, clause: &str, entry: &str, input: Input, expected: String, observed: String) {
        self.violations += 1;
        if self.witnesses.len() < MAX_WITNESSES {
            let w = Witness { clause: clause.to_string(), entry: entry.to_string(), input, expected, observed };
            let sig = w.signature();
            if !self.witnesses.iter().any(|x| x.signature() == sig) {
                self.witnesses.push(w);
            }
        }
    }
    /// A floor on what must have been observed; below it the run says nothing.
    pub fn floor(&mut self, what: &str, actual: u64, at_least: u64) {
        self.counters.insert(format!("floor.{}", what), actual);
        if actual < at_least {
            self.inconclusive.push(format!("floor not reached: {} = {} < {}", what, actual, at_least));
        }
    }
    /// Harness self-check (oracle sanity); a failure is never blamed on the crate.
    pub fn self_check(&mut self, what: &str, ok: bool) {
        self.add("harness_self_checks", 1);
        if !ok {
            self.inconclusive.push(format!("harness self-check failed: {}", what));
        }
    }
    pub fn merge(&mut self, o: Rep) {
        self.evaluations += o.evaluations;
        self.distinct += o.distinct;
        self.violations += o.violations;
        for w in o.witnesses {
            if self.witnesses.len() < MAX_WITNESSES {
                let sig = w.signature();
                if !self.witnesses.iter().any(|x| x.signature() == sig) {
                    self.witnesses.push(w);
                }
            }
        }
        for (k, v) in o.counters {
            if k.starts_with("max.") {
                let e = self.counters.entry(k).or_insert(0);
                if v > *e {
                    *e = v;
                }
            } else {
                *self.counters.entry(k).or_insert(0) += v;
            }
        }
        for s in o.samples {
            if self.samples.len() < MAX_SAMPLES {
                self.samples.push(s);
            }
        }
        self.inconclusive.extend(o.inconclusive);
        for (k, v) in o.notes {
            self.notes.entry(k).or_insert(v);
        }
        if o.exhaustive.is_some() && self.exhaustive.is_none() {
            self.exhaustive = o.exhaustive;
        }
        if self.rule.is_empty() {
            self.rule = o.rule;
        }
    }
    pub fn merge_all(v: Vec<Rep>) -> Rep {
        let mut it = v.into_iter();
        let mut r = it.next().unwrap_or_default();
        for o in it {
            r.merge(o);
        }
        r
    }
}

// ---------------------------------------------------------------------------
// Minimal JSON writer (std only).

pub fn jstr(s: &str) -> String {
    let mut o = String::with_capacity(s.len() + 2);
    o.push('"');
    for c in s.chars() {
        match c {
            '"' => o.push_str("\\\""),
            '\\' => o.push_str("\\\\"),
            '\n' => o.push_str("\\n"),
            '\r' => o.push_str("\\r"),
            '\t' => o.push_str("\\t"),
            c if (c as u32) < 0x20 => {
                let _ = write!(o, "\\u{:04x}", c as u32);
            }
            c => o.push(c),
        }
    }
    o.push('"');
    o
}

impl Witness {
    pub fn to_json(&self) -> String {
        format!(
            "{{\"clause\":{},\"entry\":{},\"input_kind\":{},\"input_data\":{},\"input_shown\":{},\"expected\":{},\"observed\":{},\"signature\":{}}}",
            jstr(&self.clause),
            jstr(&self.entry),
            jstr(self.input.kind()),
            jstr(&self.input.data()),
            jstr(&self.input.show()),
            jstr(&self.expected),
            jstr(&self.observed),
            jstr(&self.signature())
        )
    }
}

impl Rep {
    pub fn to_json(&self, prop: &str, ctx: &Ctx, wall_s: f64) -> String {
        let mut o = String::new();
        o.push_str("{\n");
        let _ = write!(o, " \"property_id\":{},\n", jstr(prop));
        let _ = write!(o, " \"leg\":{},\n", jstr(&ctx.leg));
        let _ = write!(o, " \"tier\":{},\n", jstr(match ctx.tier { Tier::Quick => "quick", Tier::Thorough => "thorough", Tier::Smoke => "smoke" }));
        let _ = write!(o, " \"seed\":{},\n", ctx.seed);
        let _ = write!(o, " \"threads\":{},\n", ctx.threads);
        let _ = write!(o, " \"wall_s\":{:.3},\n", wall_s);
        let _ = write!(o, " \"evaluations\":{},\n", self.evaluations);
        let _ = write!(o, " \"distinct\":{},\n", self.distinct);
        let _ = write!(o, " \"violations\":{},\n", self.violations);
        let _ = write!(o, " \"rule\":{},\n", jstr(&self.rule));
        match self.exhaustive {
            Some(b) => {
                let _ = write!(o, " \"exhaustive\":{},\n", b);
            }
            None => {}
        }
        o.push_str(" \"observed\":{");
        let mut first = true;
        for (k, v) in &self.counters {
            if !first {
                o.push(',');
            }
            first = false;
            let _ = write!(o, "\n  {}:{}", jstr(k), v);
        }
        o.push_str("\n },\n \"notes\":{");
        first = true;
        for (k, v) in &self.notes {
            if !first {
                o.push(',');
            }
            first = false;
            let _ = write!(o, "\n  {}:{}", jstr(k), jstr(v));
        }
        o.push_str("\n },\n \"samples\":[");
        for (i, s) in self.samples.iter().enumerate() {
            if i > 0 {
                o.push(',');
            }
            let _ = write!(o, "\n  {}", jstr(s));
        }
        o.push_str("\n ],\n \"inconclusive\":[");
        for (i, s) in self.inconclusive.iter().enumerate() {
            if i > 0 {
                o.push(',');
            }
            let _ = write!(o, "\n  {}", jstr(s));
        }
        o.push_str("\n ],\n \"witnesses\":[");
        for (i, w) in self.witnesses.iter().enumerate() {
            if i > 0 {
                o.push(',');
            }
            let _ = write!(o, "\n  {}", w.to_json());
        }
        o.push_str("\n ]\n}\n");
        o
    }
}
