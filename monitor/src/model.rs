//! The reference model ("rules-of-poker oracle").
//!
//! Written from the property statements, the documented bit layout and the
//! rules of poker. It never reads the crate's lookup tables, never calls a
//! crate accessor to decode a card, and never uses the crate's slot tables.
//!
//! Deck index i in 0..52: suit = i / 13 (0 = spades, 1 = hearts, 2 = diamonds,
//! 3 = clubs), rank number r = 12 - i % 13 (ace = 12 ... deuce = 0). 52 = blank.

pub const PRIMES: [u32; 13] = [2, 3, 5, 7, 11, 13, 17, 19, 23, 29, 31, 37, 41];
pub const BLANK: u8 = 52;

pub const RANK_SINGULAR: [&str; 13] =
    ["Deuce", "Trey", "Four", "Five", "Six", "Seven", "Eight", "Nine", "Ten", "Jack", "Queen", "King", "Ace"];
pub const RANK_PLURAL: [&str; 13] =
    ["Deuces", "Treys", "Fours", "Fives", "Sixes", "Sevens", "Eights", "Nines", "Tens", "Jacks", "Queens", "Kings", "Aces"];
pub const RANK_CHARS: [char; 13] = ['2', '3', '4', '5', '6', '7', '8', '9', 'T', 'J', 'Q', 'K', 'A'];
pub const SUIT_LETTERS: [char; 4] = ['S', 'H', 'D', 'C'];

#[inline]
pub fn rank_of(i: u8) -> u8 {
    12 - i % 13
}
#[inline]
pub fn suit_of(i: u8) -> u8 {
    i / 13
}
#[inline]
pub fn idx(rank: u8, suit: u8) -> u8 {
    suit * 13 + (12 - rank)
}

/// The documented word: |mmmbbbbb|bbbbbbbb|SHDCrrrr|xxpppppp|
#[inline]
pub fn word(i: u8) -> u32 {
    if i >= 52 {
        return 0;
    }
    let r = rank_of(i) as u32;
    let s = suit_of(i) as u32;
    (1u32 << (16 + r)) | ((0x8000u32 >> s) & 0xF000) | (r << 8) | PRIMES[r as usize]
}

/// bit-set form: bit 51 for deck card 0 down to bit 0 for deck card 51
#[inline]
pub fn bit(i: u8) -> u64 {
    if i >= 52 {
        0
    } else {
        1u64 << (51 - i as u32)
    }
}

pub fn words52() -> [u32; 52] {
    let mut w = [0u32; 52];
    for i in 0..52u8 {
        w[i as usize] = word(i);
    }
    w
}

/// inverse of `word` by search (model only; 52 comparisons)
pub fn index_of_word(w: u32) -> Option<u8> {
    (0..52u8).find(|&i| word(i) == w)
}

pub fn card_name(i: u8) -> String {
    if i >= 52 {
        "__".to_string()
    } else {
        format!("{}{}", RANK_CHARS[rank_of(i) as usize], SUIT_LETTERS[suit_of(i) as usize].to_ascii_lowercase())
    }
}

pub fn hand_name(c: &[u8]) -> String {
    c.iter().map(|&i| card_name(i)).collect::<Vec<_>>().join(" ")
}

// ---------------------------------------------------------------------------
// Strength keys. key = category << 20 | up to five 4-bit tie-break ranks,
// most significant first. A greater key is a stronger hand.

pub const CAT_HIGH: u32 = 0;
pub const CAT_PAIR: u32 = 1;
pub const CAT_TWO_PAIR: u32 = 2;
pub const CAT_TRIPS: u32 = 3;
pub const CAT_STRAIGHT: u32 = 4;
pub const CAT_FLUSH: u32 = 5;
pub const CAT_FULL: u32 = 6;
pub const CAT_QUADS: u32 = 7;
pub const CAT_SF: u32 = 8;

#[inline]
pub fn pack(cat: u32, t: [u8; 5]) -> u32 {
    (cat << 20) | ((t[0] as u32) << 16) | ((t[1] as u32) << 12) | ((t[2] as u32) << 8) | ((t[3] as u32) << 4) | (t[4] as u32)
}
#[inline]
pub fn key_cat(key: u32) -> u32 {
    key >> 20
}
#[inline]
pub fn key_t(key: u32, k: usize) -> u8 {
    ((key >> (16 - 4 * k)) & 0xF) as u8
}

/// Definitional five-card evaluation from (rank, suit) pairs by histogram.
pub fn key5(c: &[u8; 5]) -> u32 {
    let mut cnt = [0u8; 13];
    let mut suits = [0u8; 4];
    for &x in c {
        cnt[rank_of(x) as usize] += 1;
        suits[suit_of(x) as usize] += 1;
    }
    let flush = suits.iter().any(|&s| s == 5);
    // groups (count, rank), ordered by count desc then rank desc
    let mut g: [(u8, u8); 5] = [(0, 0); 5];
    let mut n = 0;
    for r in (0..13u8).rev() {
        if cnt[r as usize] > 0 {
            g[n] = (cnt[r as usize], r);
            n += 1;
        }
    }
    // insertion sort by count desc, stable (ranks already descending)
    for i in 1..n {
        let mut j = i;
        while j > 0 && g[j - 1].0 < g[j].0 {
            g.swap(j - 1, j);
            j -= 1;
        }
    }
    let mut straight_high: Option<u8> = None;
    if n == 5 {
        let hi = g[0].1;
        let lo = g[4].1;
        if hi - lo == 4 {
            straight_high = Some(hi);
        } else if hi == 12 && g[1].1 == 3 && g[2].1 == 2 && g[3].1 == 1 && g[4].1 == 0 {
            straight_high = Some(3); // the wheel: five high
        }
    }
    let r = |k: usize| g[k].1;
    if let (Some(h), true) = (straight_high, flush) {
        return pack(CAT_SF, [h, 0, 0, 0, 0]);
    }
    if g[0].0 == 4 {
        return pack(CAT_QUADS, [r(0), r(1), 0, 0, 0]);
    }
    if g[0].0 == 3 && g[1].0 == 2 {
        return pack(CAT_FULL, [r(0), r(1), 0, 0, 0]);
    }
    if flush {
        return pack(CAT_FLUSH, [r(0), r(1), r(2), r(3), r(4)]);
    }
    if let Some(h) = straight_high {
        return pack(CAT_STRAIGHT, [h, 0, 0, 0, 0]);
    }
    if g[0].0 == 3 {
        return pack(CAT_TRIPS, [r(0), r(1), r(2), 0, 0]);
    }
    if g[0].0 == 2 && g[1].0 == 2 {
        return pack(CAT_TWO_PAIR, [r(0), r(1), r(2), 0, 0]);
    }
    if g[0].0 == 2 {
        return pack(CAT_PAIR, [r(0), r(1), r(2), r(3), 0]);
    }
    pack(CAT_HIGH, [r(0), r(1), r(2), r(3), r(4)])
}

#[inline]
fn top(m: u16) -> u8 {
    debug_assert!(m != 0);
    (15 - m.leading_zeros()) as u8
}

/// highest straight in a 13-bit rank mask (ace may play low), as its high rank
#[inline]
pub fn straight_high(m: u16) -> Option<u8> {
    let mut h = 12i32;
    while h >= 4 {
        let pat = 0x1Fu16 << (h - 4);
        if m & pat == pat {
            return Some(h as u8);
        }
        h -= 1;
    }
    const WHEEL: u16 = (1 << 12) | 0xF;
    if m & WHEEL == WHEEL {
        return Some(3);
    }
    None
}

/// Direct rule-based evaluation of the best five-card hand contained in 5..=7
/// distinct cards, given as one 13-bit rank mask per suit.
pub fn key_best(s: [u16; 4]) -> u32 {
    let any = s[0] | s[1] | s[2] | s[3];
    let ge2 = (s[0] & s[1]) | (s[0] & s[2]) | (s[0] & s[3]) | (s[1] & s[2]) | (s[1] & s[3]) | (s[2] & s[3]);
    let ge3 = (s[0] & s[1] & s[2]) | (s[0] & s[1] & s[3]) | (s[0] & s[2] & s[3]) | (s[1] & s[2] & s[3]);
    let ge4 = s[0] & s[1] & s[2] & s[3];
    let mut flush_mask: u16 = 0;
    for k in 0..4 {
        if s[k].count_ones() >= 5 {
            flush_mask = s[k];
        }
    }
    if flush_mask != 0 {
        if let Some(h) = straight_high(flush_mask) {
            return pack(CAT_SF, [h, 0, 0, 0, 0]);
        }
    }
    if ge4 != 0 {
        let q = top(ge4);
        let rest = any & !(1 << q);
        return pack(CAT_QUADS, [q, top(rest), 0, 0, 0]);
    }
    if ge3 != 0 {
        let t = top(ge3);
        let rest = ge2 & !(1 << t);
        if rest != 0 {
            return pack(CAT_FULL, [t, top(rest), 0, 0, 0]);
        }
    }
    if flush_mask != 0 {
        let mut m = flush_mask;
        let mut t = [0u8; 5];
        for k in 0..5 {
            t[k] = top(m);
            m &= !(1 << t[k]);
        }
        return pack(CAT_FLUSH, t);
    }
    if let Some(h) = straight_high(any) {
        return pack(CAT_STRAIGHT, [h, 0, 0, 0, 0]);
    }
    if ge3 != 0 {
        let t = top(ge3);
        let mut m = any & !(1 << t);
        let k1 = top(m);
        m &= !(1 << k1);
        let k2 = top(m);
        return pack(CAT_TRIPS, [t, k1, k2, 0, 0]);
    }
    if ge2.count_ones() >= 2 {
        let p1 = top(ge2);
        let p2 = top(ge2 & !(1 << p1));
        let m = any & !(1 << p1) & !(1 << p2);
        return pack(CAT_TWO_PAIR, [p1, p2, top(m), 0, 0]);
    }
    if ge2 != 0 {
        let p = top(ge2);
        let mut m = any & !(1 << p);
        let k1 = top(m);
        m &= !(1 << k1);
        let k2 = top(m);
        m &= !(1 << k2);
        let k3 = top(m);
        return pack(CAT_PAIR, [p, k1, k2, k3, 0]);
    }
    let mut m = any;
    let mut t = [0u8; 5];
    for k in 0..5 {
        t[k] = top(m);
        m &= !(1 << t[k]);
    }
    pack(CAT_HIGH, t)
}

#[inline]
pub fn suit_masks(c: &[u8]) -> [u16; 4] {
    let mut s = [0u16; 4];
    for &x in c {
        s[suit_of(x) as usize] |= 1 << rank_of(x);
    }
    s
}

pub const KEY_SPACE: usize = 9 << 20;

pub struct Model {
    /// strength ordinal (1 = royal flush ... 7462) per key, 0 where no hand has that key
    pub ordinal_of_key: Vec<u16>,
    /// key per ordinal (index 0 unused)
    pub key_of_ordinal: Vec<u32>,
    /// number of five-card hands per ordinal
    pub population: Vec<u32>,
    /// one representative five-card hand (deck indices) per ordinal
    pub representative: Vec<[u8; 5]>,
    pub distinct_keys: usize,
    pub hands_enumerated: u64,
    pub category_population: [u64; 9],
}

impl Model {
    /// Enumerate all C(52,5) hands with the definitional evaluator, collect the
    /// distinct keys, order them strongest first and number them from 1.
    pub fn build() -> Model {
        let mut pop = vec![0u32; KEY_SPACE];
        let mut rep: Vec<[u8; 5]> = vec![[0; 5]; 0];
        let mut rep_of_key: std::collections::HashMap<u32, [u8; 5]> = std::collections::HashMap::new();
        let mut n = 0u64;
        let mut catpop = [0u64; 9];
        for a in 0..52u8 {
            for b in (a + 1)..52 {
                for c in (b + 1)..52 {
                    for d in (c + 1)..52 {
                        for e in (d + 1)..52 {
                            let h = [a, b, c, d, e];
                            let k = key5(&h);
                            if pop[k as usize] == 0 {
                                rep_of_key.insert(k, h);
                            }
                            pop[k as usize] += 1;
                            catpop[key_cat(k) as usize] += 1;
                            n += 1;
                        }
                    }
                }
            }
        }
        let mut keys: Vec<u32> = rep_of_key.keys().copied().collect();
        keys.sort_unstable_by(|a, b| b.cmp(a));
        let mut ordinal_of_key = vec![0u16; KEY_SPACE];
        let mut key_of_ordinal = vec![0u32; keys.len() + 1];
        let mut population = vec![0u32; keys.len() + 1];
        rep.push([0; 5]);
        for (i, &k) in keys.iter().enumerate() {
            ordinal_of_key[k as usize] = (i + 1) as u16;
            key_of_ordinal[i + 1] = k;
            population[i + 1] = pop[k as usize];
            rep.push(rep_of_key[&k]);
        }
        Model {
            ordinal_of_key,
            key_of_ordinal,
            population,
            representative: rep,
            distinct_keys: keys.len(),
            hands_enumerated: n,
            category_population: catpop,
        }
    }

    #[inline]
    pub fn ord_of_key(&self, k: u32) -> u16 {
        self.ordinal_of_key[k as usize]
    }
    #[inline]
    pub fn ord5(&self, c: &[u8; 5]) -> u16 {
        self.ordinal_of_key[key5(c) as usize]
    }
    /// direct rule-based ordinal of the best hand in 5..=7 distinct cards
    #[inline]
    pub fn ord_best(&self, c: &[u8]) -> u16 {
        self.ordinal_of_key[key_best(suit_masks(c)) as usize]
    }
    /// definitional form: strongest five-card sub-hand, by deleting cards
    pub fn ord_best_by_subsets(&self, c: &[u8]) -> u16 {
        let n = c.len();
        let mut best = u16::MAX;
        let mut sub = [0u8; 5];
        // choose which (n - 5) cards to drop: n <= 7 so at most two
        match n {
            5 => {
                sub.copy_from_slice(c);
                best = self.ord5(&sub);
            }
            6 => {
                for drop in 0..6 {
                    let mut k = 0;
                    for i in 0..6 {
                        if i != drop {
                            sub[k] = c[i];
                            k += 1;
                        }
                    }
                    best = best.min(self.ord5(&sub));
                }
            }
            7 => {
                for d1 in 0..7 {
                    for d2 in (d1 + 1)..7 {
                        let mut k = 0;
                        for i in 0..7 {
                            if i != d1 && i != d2 {
                                sub[k] = c[i];
                                k += 1;
                            }
                        }
                        best = best.min(self.ord5(&sub));
                    }
                }
            }
            _ => panic!("model: ord_best_by_subsets needs 5..=7 cards"),
        }
        best
    }

    /// self-checks of the oracle against the known combinatorics of poker
    pub fn self_check(&self) -> Result<(), String> {
        if self.hands_enumerated != 2_598_960 {
            return Err(format!("enumerated {} hands", self.hands_enumerated));
        }
        if self.distinct_keys != 7462 {
            return Err(format!("{} distinct strength classes, expected 7462", self.distinct_keys));
        }
        let want: [u64; 9] = [1_302_540, 1_098_240, 123_552, 54_912, 10_200, 5_108, 3_744, 624, 40];
        if self.category_population != want {
            return Err(format!("category populations {:?}", self.category_population));
        }
        // ordinal ranges of the categories, strongest first: 10,156,156,1277,10,858,858,2860,1277
        let sizes = [10usize, 156, 156, 1277, 10, 858, 858, 2860, 1277];
        let mut o = 1usize;
        for (i, sz) in sizes.iter().enumerate() {
            let cat = 8 - i as u32;
            for _ in 0..*sz {
                if key_cat(self.key_of_ordinal[o]) != cat {
                    return Err(format!("ordinal {} has category {}, expected {}", o, key_cat(self.key_of_ordinal[o]), cat));
                }
                o += 1;
            }
        }
        // endpoints named in the statement of C01
        if self.ord5(&[0, 1, 2, 3, 4]) != 1 {
            return Err("royal flush is not ordinal 1".into());
        }
        // 7-5-4-3-2 unsuited: 7s 5s 4s 3s 2h
        let worst = [idx(5, 0), idx(3, 0), idx(2, 0), idx(1, 0), idx(0, 1)];
        if self.ord5(&worst) != 7462 {
            return Err("7-5-4-3-2 unsuited is not ordinal 7462".into());
        }
        Ok(())
    }

    // -- names -------------------------------------------------------------

    pub fn category_name_of_key(k: u32) -> &'static str {
        match key_cat(k) {
            CAT_SF => "StraightFlush",
            CAT_QUADS => "FourOfAKind",
            CAT_FULL => "FullHouse",
            CAT_FLUSH => "Flush",
            CAT_STRAIGHT => "Straight",
            CAT_TRIPS => "ThreeOfAKind",
            CAT_TWO_PAIR => "TwoPair",
            CAT_PAIR => "Pair",
            _ => "HighCard",
        }
    }

    pub fn class_name_of_key(k: u32) -> String {
        let a = key_t(k, 0) as usize;
        let b = key_t(k, 1) as usize;
        match key_cat(k) {
            CAT_SF => {
                if a == 12 {
                    "RoyalFlush".to_string()
                } else {
                    format!("{}HighStraightFlush", RANK_SINGULAR[a])
                }
            }
            CAT_QUADS => format!("Four{}", RANK_PLURAL[a]),
            CAT_FULL => format!("{}Over{}", RANK_PLURAL[a], RANK_PLURAL[b]),
            CAT_FLUSH => format!("{}HighFlush", RANK_SINGULAR[a]),
            CAT_STRAIGHT => format!("{}HighStraight", RANK_SINGULAR[a]),
            CAT_TRIPS => format!("Three{}", RANK_PLURAL[a]),
            CAT_TWO_PAIR => format!("{}And{}", RANK_PLURAL[a], RANK_PLURAL[b]),
            CAT_PAIR => format!("PairOf{}", RANK_PLURAL[a]),
            _ => format!("{}High", RANK_SINGULAR[a]),
        }
    }

    /// expected (category, class) names per ordinal; index 0 = ("Invalid", "Invalid")
    pub fn names_by_ordinal(&self) -> Vec<(String, String)> {
        let mut v = vec![("Invalid".to_string(), "Invalid".to_string())];
        for o in 1..=self.distinct_keys {
            let k = self.key_of_ordinal[o];
            v.push((Model::category_name_of_key(k).to_string(), Model::class_name_of_key(k)));
        }
        v
    }
}

// ---------------------------------------------------------------------------
// Text symbols (C10, C12): the 19 rank symbols and the 16 suit symbols.

pub fn rank_of_symbol(c: char) -> Option<u8> {
    Some(match c {
        'A' | 'a' => 12,
        'K' | 'k' => 11,
        'Q' | 'q' => 10,
        'J' | 'j' => 9,
        'T' | 't' | '0' => 8,
        '9' => 7,
        '8' => 6,
        '7' => 5,
        '6' => 4,
        '5' => 3,
        '4' => 2,
        '3' => 1,
        '2' => 0,
        _ => return None,
    })
}

pub fn suit_of_symbol(c: char) -> Option<u8> {
    Some(match c {
        'S' | 's' | '\u{2660}' | '\u{2664}' => 0,
        'H' | 'h' | '\u{2665}' | '\u{2661}' => 1,
        'D' | 'd' | '\u{2666}' | '\u{2662}' => 2,
        'C' | 'c' | '\u{2663}' | '\u{2667}' => 3,
        _ => return None,
    })
}

/// model of parsing one card token: deck index, or BLANK
pub fn parse_token(tok: &str) -> u8 {
    let mut it = tok.chars();
    let (a, b) = match (it.next(), it.next()) {
        (Some(a), Some(b)) => (a, b),
        _ => return BLANK,
    };
    match (rank_of_symbol(a), suit_of_symbol(b)) {
        (Some(r), Some(s)) => idx(r, s),
        _ => BLANK,
    }
}

/// own whitespace tokenizer (Unicode White_Space via char::is_whitespace)
pub fn tokens(s: &str) -> Vec<&str> {
    let mut out = Vec::new();
    let mut start: Option<usize> = None;
    for (i, c) in s.char_indices() {
        if c.is_whitespace() {
            if let Some(st) = start.take() {
                out.push(&s[st..i]);
            }
        } else if start.is_none() {
            start = Some(i);
        }
    }
    if let Some(st) = start {
        out.push(&s[st..]);
    }
    out
}

// ---------------------------------------------------------------------------
// Chen formula in half-points (C17).

/// high-card points in half-points
pub fn chen_card_half_points(rank: u8) -> i32 {
    match rank {
        12 => 20,
        11 => 16,
        10 => 14,
        9 => 12,
        r => r as i32 + 2, // pip value / 2, in half points = pip value
    }
}

pub fn chen_gap(r1: u8, r2: u8) -> u8 {
    let d = if r1 > r2 { r1 - r2 } else { r2 - r1 };
    if d == 0 {
        0
    } else {
        d - 1
    }
}

/// Bill Chen's score for two distinct cards (deck indices)
pub fn chen(a: u8, b: u8) -> i32 {
    let (ra, rb) = (rank_of(a), rank_of(b));
    let hi = ra.max(rb);
    let mut hp = chen_card_half_points(hi);
    if ra == rb {
        hp = (hp * 2).max(10);
    } else {
        let gap = chen_gap(ra, rb);
        hp -= match gap {
            0 => 0,
            1 => 2,
            2 => 4,
            3 => 8,
            _ => 10,
        };
        if gap < 2 && hi < 10 {
            // both below a queen (queen = rank number 10)
            hp += 2;
        }
    }
    if suit_of(a) == suit_of(b) {
        hp += 4;
    }
    // round half up: floor((hp + 1) / 2) with floor division for negatives
    (hp + 1).div_euclid(2)
}

/// Field-structured neighbours of a card word: every combination of a replaced suit nibble (all 16 values),
/// rank nibble, low byte (prime + the two unused bits), multiples flags and rank-bit half. Code that reads the
/// word field by field goes wrong on words that differ from a card in *several* fields at once, which bit-flip
/// neighbourhoods of radius 1-2 and uniformly random words both miss.
pub fn field_variants(base: u32) -> Vec<u32> {
    let r = (base >> 8) & 0xF;
    let p = base & 0xFF;
    let hi = base >> 16;
    let mut out = Vec::with_capacity(3456);
    for s in 0..16u32 {
        for rn in [r, r ^ 1, 0, 15] {
            for low in [p, p ^ 1, p ^ 0x40, p ^ 0x80, 0, 0xFF] {
                for flags in [0u32, 1, 4] {
                    for h in [hi, hi ^ 1, hi ^ (1 << 12)] {
                        out.push(((h | (flags << 13)) << 16) | (s << 12) | (rn << 8) | low);
                    }
                }
            }
        }
    }
    out
}
