#!/bin/sh
# Offline build of the monitor harness in both profiles (see DESIGN.md section 2).
cd "$(dirname "$0")" && exec ./check --build-only
